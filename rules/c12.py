"""C12 — kind conversion and reshape: element conversion impls are the `as` cast between exactly their two types,
conversion kernels are linear element-wise maps, the element-count guard dominates every reshape, unsupported pairs end in Err."""
import re
from collections import defaultdict, Counter
from lib.facts import CallGraph, find, is_node, path_of, render, render_stmt, last_seg
from lib import fxn as X
from lib import alpha
from lib.kernel import Kernel, Unrecognised, show, roots_in, root_of
from lib.mirq import Slice, edge_dominates
from lib.mirflow import Flow
from lib.dispatch import dispatchers

TECHNIQUE = ("deviant-sibling partition of the LossyFrom/LosslessInto impl bodies (normalised by their own type pair) against a frozen class table; kernel normal "
             "form of the conversion structs; MIR edge-dominance of the element-count comparison over every call of the reshape constructor; fallback-arm shape; "
             "symbolic extents on MIR (lib/mirextent.py): output type dimensions from the resolved nalgebra types, extent operands of the allocator traced to (shape list, position), "
             "path facts from switches, assume/guarantee between shape-keeping builders and their call sites")
EXPLANATION = (
    "Decides structural clauses of C12: (R1) every scalar conversion arm (Value::A, Kind(B)) builds its converter from the matched value into an output cell of kind B; (R2) every element conversion impl (LossyFrom<A> for B / LosslessInto<B> for A) is exactly `value as B` (or the "
    "wrapper/`to_string`/identity forms frozen in the class table) between its own two types - so float->int truncates and saturates and widening is exact "
    "by the definition of `as`; (R3) every call of the reshape constructor is dominated by the true edge of a comparison of the two element counts "
    "(product == product), and the matrix conversion kernels map source to destination in the same linear storage order on both sides (no transposing "
    "iterator); the scalar->matrix kernel writes the scalar to every element; (R4) the conversion dispatchers' fallback arms return Err. "
    "Not decided: int->int narrowing policy, rational/complex conversions, matrix->set (C14)."
    ' (R5) in the reshape dispatch `match (matrix, shape[0], shape[1])` every arm allocates its output with (rows, cols) = (second, third) pattern position.'
    " (R6) Value::convert_to (the scalar table behind option/set/table-column annotations): each arm builds the variant of its target kind from a single `as` cast to that kind's element type."
    ' (R7) the identity fast path of a matrix annotation (source handed back unchanged) is taken only under guards saying the requested shape list is empty or equal to the source shape and the element kinds are equal.'
    " (R8) collection conversions are all-or-nothing: per-element convert_to results never feed an adaptor that discards the Nones (filter_map, flatten, filter ..) nor an `if let Some` push without a failing else."
    " (R9-R11) for the conversion structs whose kernel ranges over the OUTPUT buffer (zip with the source / fill), decided on the MIR of every construction site: each dynamic row / column extent of the allocated output "
    "(and of every other shape-list-sized allocation of the conversion module, e.g. Matrix::from_vec(v, rows, cols)) comes from position 0 / 1 of one shape list; the fixed dimensions of the output type are implied by a test of the "
    "requested shape on the path or are those of the source's storage form; and every call of a builder that allocates from an untested shape list passes the source's own shape() or a list compared equal to it in both positions - "
    "what is decided is the provenance and position of the extents and the presence of the guards, not the converted values or the shape observed at run time."
)

ALLOWED = {
    "LossyFrom": {"(value as SELF)", "value.to_string()", "value", "SELF::from(value)", "value.pretty_print()", "(value.0 as SELF)", "SELF((value as INNER))",
                  "value.to_f64().unwrap_or_else(PANIC)", "FORMAT(value)", "SELF::from_f64(value).unwrap_or_else(PANIC)"},
    "LosslessInto": {"(self as TARGET)", "self.to_string()", "(self as SELF)", "if self { 1 } else { 0 }", "self", "if self { 1.0 } else { 0.0 }", "self.pretty_print()",
                     "match self.to_f64() { Some(val) => val, None => { PANIC } }", "TARGET::from_f64(self).unwrap_or_else(PANIC)", "TARGET::from_f64((self as f64)).unwrap_or_else(PANIC)",
                     "(self.0 as TARGET)", "TARGET((self as INNER))", "TARGET::from(self)"},
}


def norm_body(it):
    # parameters and bound locals are spelled canonically (value / val, val2 ..), `if let` is read as the two-arm `match` it abbreviates:
    # the frozen forms below describe what the body computes, not how its names are spelled
    ast = alpha.unwrap_arm_blocks(alpha.desugar(alpha.rename(it["body"], alpha.canon_names(it))))
    body = "; ".join(render_stmt(s) for s in ast)
    tr = last_seg(it["trait"])
    targ = X.type_args(it["trait"])
    other = targ[0] if targ else "?"
    slf = it["self"]
    nb = body
    nb = re.sub(r"\|\|\s*\{\s*::core::panicking::panic_fmt\(format_args!\([^)]*\)\)\s*\}", "PANIC", nb)
    nb = re.sub(r"::core::panicking::panic_fmt\(format_args!\([^)]*\)\)", "PANIC", nb)
    nb = re.sub(r"::alloc::__export::must_use\(\{ ::alloc::fmt::format\(format_args!\(\"\{0\}\", ?value\)\) \}\)", "FORMAT(value)", nb)
    # replace own types
    pairs = [(slf, "SELF"), (other, "TARGET" if tr == "LosslessInto" else "FROM")]
    for ty, sym in sorted(pairs, key=lambda p: -len(p[0])):
        if ty == other and ty == slf:
            continue
        nb = re.sub(r"(?<![\w:])%s(?![\w])" % re.escape(ty), sym, nb)
    if slf == other:
        nb = re.sub(r"(?<![\w:])%s(?![\w])" % re.escape(slf), "SELF", nb)
    return tr, nb, slf, other


def run(F, rep, tier):
    _run(F, rep, tier)
    from rules.c12_allornothing import run_r8
    run_r8(F, rep)


def _run(F, rep, tier):
    crate = "mech_interpreter.lib"
    items = F.syn(crate)
    rep.rule("C12-R2", "element conversion impls are the `as` cast (or a frozen wrapper/to_string/identity form) between exactly their own two types")
    rep.rule("C12-R3", "reshape constructor calls are dominated by the element-count equality; conversion kernels map elements in the same linear order on both sides")
    rep.rule("C12-R4", "conversion dispatchers end in an Err fallback (no arm returns the input unchanged for an unsupported pair)")
    n = 0
    for it in items:
        if it["k"] == "method" and it["trait"] and last_seg(it["trait"]) in ("LossyFrom", "LosslessInto") and it["name"] in ("lossy_from", "lossless_into"):
            tr, nb, slf, other = norm_body(it)
            n += 1
            ok = nb in ALLOWED[tr]
            key = "%s<%s> for %s" % (tr, other, slf)
            rep.check(ok, "C12-R2", key if not ok else "%s:%s" % (tr, nb),
                      "impl %s: body `%s` is not one of the recognised conversion forms between its two types (%s)" % (key, nb, "; ".join(render_stmt(s) for s in it["body"])[:120]),
                      "expanded line %d" % it["line"], sample={"impl": key, "normalised_body": nb})
    rep.floor("C12-R2", "element conversion impls", n, 300)

    # kernels
    S = X.load_fxn_structs(F, [crate])
    conv = {name: fs for (c, name), fs in S.items() if name.startswith("Convert") and fs.solve is not None}
    want = {"ConvertMatToMat2": "map", "ConvertScalarToMat2": "fill", "ConvertScalarToScalar": "scalar", "ConvertScalarToScalarBasic": "scalar"}
    for name, kind in want.items():
        fs = conv.get(name)
        if not rep.check(fs is not None, "C12-R3", "anchor:%s" % name, "conversion struct %s not found" % name):
            continue
        try:
            k = Kernel(fs.solve, fs.fields)
        except Unrecognised as e:
            rep.bad("C12-R3", "unrecognised-kernel:%s" % name, "kernel not recognised: %s" % e)
            continue
        ws = [e for e in k.effects if e.kind == "write"]
        why = None
        if len(ws) != 1 or len(k.effects) != 1:
            why = "expected exactly one write, found %s" % k.effects
        else:
            w = ws[0]
            v = w.value
            inner = v
            conv_call = None
            while isinstance(inner, tuple) and inner[0] == "call":
                conv_call = inner[1]
                inner = inner[2] if inner[2] != ("unit",) else (inner[3][0] if inner[3] else inner)
                if inner == v:
                    break
            if root_of(w.target) != "out":
                why = "does not write the output"
            elif roots_in(v) != {"arg"}:
                why = "value does not derive from the argument only: %s" % show(v)
            elif kind == "map":
                if not (w.target[0] == "elem" and isinstance(inner, tuple) and inner[0] == "elem" and inner[2] == w.target[2] and len(w.target[2]) == 1):
                    why = "source element %s and destination element %s are not at the same linear position" % (show(inner), show(w.target))
                elif not all(l[0] in ("zip", "iter") for l in w.loops):
                    why = "iteration is not a plain linear traversal: %s" % [show(l) for l in w.loops]
                elif conv_call is None or not re.search(r"lossless_into|lossy_from|into|from", conv_call):
                    why = "element is not converted through the conversion trait: %s" % show(v)
            elif kind == "fill":
                if not (w.target[0] == "elem" and inner == ("root", "arg") and all(l[0] in ("iter",) for l in w.loops)):
                    why = "scalar is not written to every element: %s" % w
            elif kind == "scalar":
                if not (w.target == ("root", "out") and inner == ("root", "arg")):
                    why = "not out := convert(arg): %s" % w
                elif conv_call is None or not re.search(r"lossless_into|lossy_from", conv_call):
                    why = "scalar is not converted through the conversion trait: %s" % show(v)
        rep.check(why is None, "C12-R3", "kernel:%s" % name, "%s: %s" % (name, why), "%s (%s)" % (name, crate), sample={"struct": name, "normal_form": [repr(e) for e in k.effects]})

    # reshape guard (MIR)
    cg = CallGraph(F, [crate])
    reshapers = [f for f in cg.bodies if re.search(r"convert::mat_to_mat::create_reshape\w*$", f)]
    rep.floor("C12-R3", "reshape constructor", len(reshapers), 1)
    nsites = 0
    crate_prefix = "mech_interpreter::"

    def is_product(sl, o):
        r = sl.roots(o)
        return any((x[0] == "op" and str(x[1]).startswith("Mul")) or (x[0] == "call" and re.search(r"::product$", x[1])) for x in r)

    def count_cmp(fl, sl, kind, payload, depth=1):
        """'Eq' / 'Ne' when the condition compares two element counts (products), directly or inside a private bool helper"""
        if kind == "cmp" and payload[0] in ("Eq", "Ne"):
            if is_product(sl, payload[1]) and is_product(sl, payload[2]):
                return payload[0]
            return None
        if kind == "call":
            blk, t = payload
            cal = t.get("f") or t["tf"]
            m = re.search(r"PartialEq::(eq|ne)$", t["tf"])
            if m and len(t["args"]) == 2 and is_product(sl, t["args"][0]) and is_product(sl, t["args"][1]):
                return "Eq" if m.group(1) == "eq" else "Ne"
            kb = cg.bodies.get(cal)
            if depth > 0 and kb is not None and not kb.pub and cal.startswith(crate_prefix) and kb.locals and kb.locals[0] == "bool":
                kfl = Flow(kb)
                if len(kfl.live_defs(0)) == 1:
                    k2, p2, pol2 = kfl.cond([0, ""])
                    op = count_cmp(kfl, kfl.sl, k2, p2, depth - 1)
                    if op:
                        return op if pol2 else ("Ne" if op == "Eq" else "Eq")
        return None

    def count_guards(b):
        """CFG edges (switch block, target) taken exactly when the two element counts are equal"""
        fl = Flow(b)
        out = []
        for i in range(len(b.blocks)):
            be = fl.bool_edges(i)
            if not be:
                continue
            kind, payload, pol = fl.cond(be[0])
            op = count_cmp(fl, fl.sl, kind, payload)
            if op:
                val = (op == "Eq") if pol else (op != "Eq")
                out.append((i, be[1][val]))
        return out
    guard_cache = {}
    callers_of = None
    for f, b in cg.bodies.items():
        calls = [(i, t) for i, t in b.calls() if (t.get("f") or t["tf"]) in reshapers]
        if not calls or f in reshapers:
            continue
        guards = count_guards(b)
        for i, t in calls:
            nsites += 1
            ok = any(edge_dominates(b, g, tt, i) for g, tt in guards)
            if not ok and not b.pub and f.startswith(crate_prefix):
                # the call sits in a private helper: the guard may have stayed with the (only) callers
                if callers_of is None:
                    callers_of = defaultdict(list)
                    for f2, b2 in cg.bodies.items():
                        for i2, t2 in b2.calls():
                            callers_of[t2.get("f") or t2["tf"]].append((f2, i2))
                cs = callers_of.get(f, [])
                if cs:
                    ok = True
                    for f2, i2 in cs:
                        if f2 not in guard_cache:
                            guard_cache[f2] = count_guards(cg.bodies[f2])
                        if not any(edge_dominates(cg.bodies[f2], g, tt, i2) for g, tt in guard_cache[f2]):
                            ok = False
                    if ok:
                        rep.note("C12-R3-guard-in-callers", {"helper": f, "callers": sorted({c[0] for c in cs})[:5]})
            rep.check(ok, "C12-R3", "%s:count-guard" % f.split("::")[-1],
                      "%s calls the reshape constructor (line %d) on a path that is not guarded by `rows*cols == rows'*cols'`: a shape annotation with a different element count truncates or pads instead of failing" % (f, t["l"]),
                      "%s:%d" % (b.file, t["l"]), sample={"caller": f, "guards": len(guards)})
    rep.floor("C12-R3", "reshape call sites", nsites, 20)

    # R4 fallback arms of the conversion dispatchers
    nd = 0
    for it in items:
        if it["k"] != "fn" or not it["mod"].endswith(("convert", "mat_to_mat", "scalar", "scalar_to_mat")) or not re.search(r"convert|conversion", it["name"]):
            continue
        tail = it["body"][-1] if it["body"] else None
        tails = []
        if tail is not None and tail[0] == "expr" and is_node(tail[1]):
            e = tail[1]
            while is_node(e) and e[0] in ("block", "unsafe") and e[1]:
                e = e[1][-1][1] if e[1][-1][0] == "expr" else None
            if is_node(e) and e[0] == "ret":
                e = e[1]
            if is_node(e) and e[0] == "path" and "::" not in e[1]:
                # `let result = match .. { .. }; result`: the named local stands for its initialiser
                inits = [st[2] for st in it["body"] if st[0] == "let" and len(st) > 2 and st[2] is not None and any(b[1] == e[1] for b in find(st[1], "pident"))]
                if len(inits) == 1:
                    e = inits[0]
            if is_node(e) and e[0] == "match":
                tails.append(e)
        for m in tails:
            arms = m[2]
            if len(arms) < 6:
                continue
            last = arms[-1]
            if last[0][0] not in ("pwild", "pident", "ptuple"):
                continue
            if last[0][0] == "ptuple" and not all(p[0] in ("pwild", "pident") for p in last[0][1]):
                continue
            nd += 1
            txt = render(last[2])
            rep.check("Err(" in txt or "return Err" in txt or "panic" in txt or "todo!" in txt or "?" in txt[-3:], "C12-R4", "%s:fallback-errs" % it["name"],
                      "the fallback arm of %s does not produce an error: `%s`" % (it["name"], txt[:140]), "expanded line %d" % last[3], sample={"fn": it["name"], "fallback": txt[:100]})
    rep.floor("C12-R4", "conversion dispatch tables with a fallback arm", nd, 2)
    # R1 scalar pair table: arm (Value::A(arg), Kind(ValueKind::B)) builds a converter whose output cell has the element type of B
    rep.rule("C12-R1", "scalar conversion arms: the output cell's type is the target kind of the arm's pattern, the argument is the matched value")
    avk, _disp = X.as_value_kind_table(F)
    n1 = 0
    for it in items:
        if it["k"] != "fn" or not re.search(r"impl_conversion_fxn$", it["name"]):
            continue
        for m in find(it["body"], "match"):
            for arm in m[2]:
                p = arm[0]
                if p[0] != "ptuple" or len(p[1]) != 2:
                    continue
                src_, tgt = p[1]
                if not (src_[0] == "pts" and src_[1].startswith("Value::") and tgt[0] == "pts" and tgt[1] == "Value::Kind" and tgt[2] and tgt[2][0][0] == "ppath"):
                    continue
                kb = tgt[2][0][1].split("::")[-1]
                binder = [b[1] for b in find(src_, "pident")]
                for st in [x for c in find(arm[2], "call") if path_of(c[1]) == "Box::new" for x in c[2] if is_node(x) and x[0] == "struct"]:
                    fields = {f[0]: f[1] for f in st[2]}
                    if "out" not in fields or "arg" not in fields:
                        continue
                    mt = re.search(r"Ref::new\((\w+)::default\(\)\)", render(fields["out"]))
                    if not mt:
                        continue
                    n1 += 1
                    got = avk.get(mt.group(1))
                    okk = got == kb and any(b in render(fields["arg"]) for b in binder)
                    rep.check(okk, "C12-R1", "%s->%s" % (src_[1].split("::")[-1], kb) if okk else "%s->%s:%s" % (src_[1].split("::")[-1], kb, mt.group(1)),
                              "conversion arm (%s, Kind(%s)) builds %s with output cell of type %s (kind %s) from `%s`: the value is converted to the wrong kind" % (src_[1], kb, st[1], mt.group(1), got, render(fields["arg"])[:30]),
                              "expanded line %d" % arm[3], sample={"arm": "(%s, %s)" % (src_[1], kb), "struct": st[1], "out": mt.group(1)})
    rep.floor("C12-R1", "scalar conversion arms", n1, 150)
    rep.analysed = {"conversion_impls": n, "conversion_structs": len(conv), "reshape_sites": nsites, "scalar_pair_arms": n1}
    from rules.loopshape import c12_reshape_allocation
    c12_reshape_allocation(F, rep)
    from rules.c12_extent import run_extent_rules
    run_extent_rules(F, rep, S)
    run_r6(F, rep, avk)


def run_r6(F, rep, avk):
    """Value::convert_to: the scalar pair table used for option / set / table-column targets"""
    rep.rule("C12-R6", "Value::convert_to scalar arms: `(Value::A(v), ValueKind::B)` builds Value::B from `*v.borrow() as T` with T the element type of B and exactly one cast "
                      "(an intermediate narrower cast truncates or clamps values the target kind can hold)")
    its = [it for it in F.syn("mech_core.lib") if it["k"] == "method" and it["name"] == "convert_to" and X.type_head(it["self"]) == "Value"]
    if not rep.check(len(its) == 1, "C12-R6", "anchor:Value::convert_to", "Value::convert_to not found (%d)" % len(its)):
        return
    n = 0
    for m in find(its[0]["body"], "match"):
        for arm in m[2]:
            p = arm[0]
            if p[0] != "ptuple" or len(p[1]) != 2:
                continue
            src_, tgt = p[1]
            if not (src_[0] == "pts" and src_[1].startswith("Value::") and tgt[0] == "ppath" and re.search(r"(^|::)ValueKind::\w+$", tgt[1])):
                continue
            ka, kb = src_[1].split("::")[-1], tgt[1].split("::")[-1]
            binder = [b[1] for b in find(src_, "pident")]
            body = arm[2]
            built = [c for c in find(body, "call") if path_of(c[1]) and path_of(c[1]).startswith("Value::")]
            if not built or not binder:
                continue
            n += 1
            c = built[0]
            variant = path_of(c[1]).split("::")[-1]
            casts = [x for x in find(c, "cast")]
            key = "%s->%s" % (ka, kb)
            if variant != kb:
                rep.bad("C12-R6", key + ":builds-" + variant, "convert_to arm (%s, %s) builds Value::%s: the value gets a kind other than the annotated one" % (src_[1], tgt[1], variant), "expanded line %d" % arm[3])
                continue
            if ka == kb and not casts:
                rep.ok("C12-R6", key, sample={"arm": key, "form": "identity"})
                continue
            inner = re.sub(r"\s", "", render(casts[0][1])) if casts else ""
            ok = len(casts) == 1 and avk.get(casts[0][2].strip()) == kb and inner.replace("(", "").replace(")", "") == "*%s.borrow" % binder[0]
            rep.check(ok, "C12-R6", key if ok else key + ":cast-chain:" + ">".join(x[2].strip() for x in reversed(casts)),
                      "convert_to arm (%s, %s) converts through `%s`: expected the single cast `*%s.borrow() as <element type of %s>`; a detour through another type loses range or precision the target can represent" % (
                          src_[1], tgt[1], render(c[2][0])[:60] if c[2] else "", binder[0], kb), "expanded line %d" % arm[3], sample={"arm": key, "expr": render(c[2][0])[:60] if c[2] else ""})
    rep.floor("C12-R6", "convert_to scalar arms", n, 120)
    from rules.loopshape import c12_identity_passthrough_guard
    c12_identity_passthrough_guard(F, rep)
