"""C06-R12: the value a statement evaluates to must be carried by the plan.

run_program rebuilds the plan from the instruction stream and returns the `out` of the last rebuilt step (or a symbol); compile() emits
instructions for plan steps only.  An evaluator that returns a value which is not the `out` of a step it appended (or the value of a
sub-evaluator that did) leaves no trace in the bytecode: a program ending in such an expression silently returns the previous step's
value (or Empty) when run from bytecode.

Value provenance over the syntax tree, flow-insensitive: every source of every returned expression of an evaluator must be
 (a) `<step>.out()`, (b) the result of a call to another evaluator that satisfies the rule (greatest fixpoint) or to a dispatcher,
 (c) a pass-through (clone, ?, index, unwrap, deref) of such a value, or a variable/container all of whose sources are such values.
"""
import re
from lib.facts import find, walk, is_node, path_of, render, render_pat, last_seg

DISPATCHERS = [("expression", "Expression"), ("structure", "Structure"), ("literal", "Literal")]
# evaluators outside the property's quantifier (user-defined functions, state machines, match, comprehensions): accepted as delegates, not judged
OUT_OF_SCOPE = {"execute_user_function", "execute_fsm_pipe", "match_expression", "set_comprehension", "matrix_comprehension"}
SCOPE_ARMS_EXCLUDED = {"Expression::Match", "Expression::FsmPipe", "Expression::SetComprehension", "Expression::MatrixComprehension"}
PASS = {"clone", "unwrap", "expect", "to_owned", "borrow", "as_ref", "deref", "cloned", "unwrap_or_default", "last", "first", "pop", "get", "iter", "next", "into_iter"}


def _no_closure_walk(n):
    """walk without entering closures or nested items"""
    st = [n]
    while st:
        x = st.pop()
        if not isinstance(x, list):
            continue
        if is_node(x):
            if x[0] in ("closure", "item"):
                continue
            yield x
        st.extend(reversed([c for c in x if isinstance(c, list)]))


class Fn:
    def __init__(self, it):
        self.it = it
        self.name = it["name"]
        self.body = it["body"]
        self.sources = {}
        self.all_fns = ()
        self._collect()

    def _bind(self, pat, src):
        for p in find(pat, "pident"):
            self.sources.setdefault(p[1], []).append(src)

    def _collect(self):
        for n in _no_closure_walk(self.body):
            t = n[0]
            if t == "let" and len(n) >= 3:
                if n[2] is not None:
                    self._bind(n[1], n[2])
                    if len(n) > 3 and n[3] is not None:
                        pass
            elif t == "letc":
                self._bind(n[1], ["lookup", n[2]])
            elif t == "assign" and is_node(n[1]) and n[1][0] == "path":
                self.sources.setdefault(n[1][1], []).append(n[2])
            elif t == "mcall" and n[2] in ("push", "insert", "push_back", "extend") and is_node(n[1]) and n[1][0] == "path" and n[4]:
                self.sources.setdefault(n[1][1], []).append(n[4][-1])
            elif t == "for":
                self._bind(n[1], ["elem", n[2]])
            elif t == "match":
                for a in n[2]:
                    self._bind(a[0], ["lookup", n[1]])

    def returned(self):
        out = []
        stmts = self.body
        if stmts and stmts[-1][0] == "expr" and not stmts[-1][2]:
            out.append(stmts[-1][1])
        for n in _no_closure_walk(self.body):
            if n[0] == "ret" and n[1] is not None:
                out.append(n[1])
        return out


def uncarried(fn, e, evals, seen=None, depth=0):
    """list of source texts that make `e` a value not carried by a plan step"""
    seen = seen if seen is not None else set()
    if not is_node(e) or depth > 40:
        return ["<?>"]
    t = e[0]
    if t == "call":
        p = path_of(e[1]) or ""
        ls = last_seg(p)
        if ls == "Ok" and e[2]:
            return uncarried(fn, e[2][0], evals, seen, depth + 1)
        if ls == "Err":
            return []
        if ls in evals and "::" not in p.replace("crate::", "").replace("super::", "").rsplit(ls, 1)[0].strip(":") or ls in evals and p.startswith(("crate::", "super::")):
            return []
        if ls in ("Some", "Box::new") and e[2]:
            return uncarried(fn, e[2][0], evals, seen, depth + 1)
        if "panicking::" in p or p in ("Vec::new", "Vec::with_capacity"):
            return []           # diverges / an empty container contributes no value
        if ls in OUT_OF_SCOPE:
            return []
        if ls in fn.all_fns:
            return ["%s()" % ls]
        return [render(e)[:70]]
    if t == "mcall":
        if e[2] == "out" and not e[4]:
            return []
        if e[2] in PASS:
            return uncarried(fn, e[1], evals, seen, depth + 1)
        return [render(e)[:70]]
    if t in ("try", "paren"):
        return uncarried(fn, e[1], evals, seen, depth + 1)
    if t == "ref":
        return uncarried(fn, e[2], evals, seen, depth + 1)
    if t == "un" and e[1] == "*":
        return uncarried(fn, e[2], evals, seen, depth + 1)
    if t == "index":
        return uncarried(fn, e[1], evals, seen, depth + 1)
    if t in ("elem", "lookup"):
        r = uncarried(fn, e[1], evals, seen, depth + 1)
        return r
    if t == "path":
        v = e[1]
        if v in seen:
            return []
        seen.add(v)
        srcs = fn.sources.get(v)
        if not srcs:
            return [v]
        out = []
        for s in srcs:
            out += uncarried(fn, s, evals, seen, depth + 1)
        return out
    if t in ("block", "unsafe"):
        st = e[1]
        if st and st[-1][0] == "expr" and not st[-1][2]:
            return uncarried(fn, st[-1][1], evals, seen, depth + 1)
        return []          # diverges / returns (the returns are collected separately)
    if t == "if":
        out = []
        th = e[2]
        if th and th[-1][0] == "expr" and not th[-1][2]:
            out += uncarried(fn, th[-1][1], evals, seen, depth + 1)
        if e[3] is not None:
            out += uncarried(fn, e[3], evals, seen, depth + 1)
        return out
    if t == "match":
        out = []
        for a in e[2]:
            out += uncarried(fn, a[2], evals, seen, depth + 1)
        return out
    if t in ("ret", "macro", "break", "continue"):
        if t == "macro" and last_seg(e[1]) == "vec" and not e[2].strip():
            return []
        if t == "macro" and last_seg(e[1]) not in ("todo", "unreachable", "unimplemented", "panic"):
            return [render(e)[:70]]
        return []
    return [render(e)[:70]]


def run(F, rep):
    rep.rule("C06-R12", "result carried by the plan: every value returned by an evaluator that expression()/structure()/literal() dispatches to is the out() of a plan "
                        "step or the value of a sub-evaluator - otherwise it leaves no instruction and the bytecode result is the previous step's")
    fns = {}
    for it in F.syn("mech_interpreter.lib"):
        if it["k"] == "fn" and (it["sig"].get("ret") or "").replace(" ", "") in ("MResult<Value>", "Value") and it.get("body"):
            fns.setdefault(it["name"], Fn(it))
    disp = {d[0] for d in DISPATCHERS}
    for f in fns.values():
        f.all_fns = set(fns)
    evals = set(fns) | disp
    why = {}
    changed = True
    while changed:
        changed = False
        for name in sorted(evals - disp):
            f = fns[name]
            bad = []
            for r in f.returned():
                bad += uncarried(f, r, evals, set())
            pushes = any(n[0] == "mcall" and n[2] in ("push", "add_plan_step") and re.search(r"plan|state", render(n[1])) for n in walk(f.body))
            uses_out = any(n[0] == "mcall" and n[2] == "out" and not n[4] for n in walk(f.body))
            if uses_out and not pushes:
                bad.append("<step>.out() of a step that is never appended to the plan")
            if bad:
                evals.discard(name)
                why[name] = sorted(set(bad))
                changed = True
    for name in list(why):          # final verdicts against the final evaluator set
        f = fns[name]
        bad = []
        for r in f.returned():
            bad += uncarried(f, r, evals, set())
        if bad:
            why[name] = sorted(set(bad) | {x for x in why[name] if x.startswith("<step>")})
    rep.floor("C06-R12", "evaluator functions classified", len(fns), 40)
    rep.floor("C06-R12", "evaluators whose every result is carried by a plan step", len(evals - disp), 5)
    n = 0
    for dname, enum in DISPATCHERS:
        it = fns.get(dname)
        if not rep.check(it is not None, "C06-R12", "anchor:%s" % dname, "dispatcher %s not found" % dname):
            continue
        arms = []
        for m in find(it.body, "match"):
            for a in m[2]:
                mm = re.match(r"&?%s::(\w+)" % enum, render_pat(a[0]))
                if mm:
                    arms.append((mm.group(1), a))
            if arms:
                break
        for var, a in arms:
            key = "%s::%s" % (enum, var)
            if key in SCOPE_ARMS_EXCLUDED:
                rep.note("out_of_scope_arms", key)
                continue
            callees = [last_seg(path_of(c[1]) or "") for c in find(a[2], "call") if path_of(c[1])]
            callees = [c for c in callees if c in fns]
            if any(c in disp for c in callees):
                continue
            n += 1
            if not callees:
                bad = uncarried(it, a[2], evals, set())
                rep.check(not bad, "C06-R12", "%s:inline" % key, "%s => %s: the value is built in place, no plan step carries it" % (key, render(a[2])[:50]), "%s (mech_interpreter.lib)" % dname)
                continue
            for c in callees:
                if c in evals:
                    rep.ok("C06-R12", "%s:%s" % (key, c), sample={"variant": key, "evaluator": c})
                    continue
                leaves = {}

                def expand(fnname, trail):
                    for src in why.get(fnname, ["?"]):
                        m = re.match(r"^(\w+)\(\)$", src)
                        if m and m.group(1) in trail:
                            continue            # recursion: judged by the other sources
                        if m and m.group(1) in why:
                            expand(m.group(1), trail + [m.group(1)])
                        else:
                            leaves.setdefault(fnname, []).append(src)
                expand(c, [c])
                for leaf, srcs in sorted(leaves.items()):
                    rep.bad("C06-R12", "%s:%s" % (key, leaf),
                            "%s: %s() can return %s - a value that is neither the out() of a plan step it appended nor the result of a sub-evaluator: compile() emits nothing for it, so a program ending "
                            "in this expression returns the previous step's value (or Empty) from bytecode" % (key, leaf, ", ".join("`%s`" % x for x in sorted(set(srcs))[:4])), "%s (mech_interpreter.lib)" % leaf)
    rep.floor("C06-R12", "evaluator arms examined", n, 20)
    rep.note("evaluators_not_carried", why)
