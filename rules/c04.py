"""C04 — indexed assignment: routing, op-assign kernels are read-modify-write with the right operator, frame conditions of the
assign kernels (1-based per position, roles, source alignment, no resize), validation before the first write, kind ladders."""
import re
from collections import defaultdict
from lib.facts import CallGraph, find, is_node, path_of, render, render_pat
from lib import fxn as X
from lib.kernel import Kernel, Unrecognised, show, roots_in, root_of
from lib.dispatch import dispatchers
from rules.c03 import routing, expected_nfc, classify_component, loop_of

TECHNIQUE = ("routing tables of subscript_ref() and the four <op>_assign functions read from the expanded syntax; kernel normal form of every assign / "
             "op-assign struct reachable (MIR call graph) from the compiled native compilers, checked for read-modify-write shape with the routed operator, "
             "per-position 1-based index idioms, source/index alignment and absence of resizing; absence rule for validation-before-write; kind-ladder "
             "comparison across the assignment dispatchers")
EXPLANATION = (
    "Decides structural clauses of C04: (R1) subscript_ref() compiles the assign family of each index-form pair, and every native compiler compiled by "
    "add/sub/mul/div_assign reaches only kernels of the form sink[p] := sink[p] OP src with that OP (a plain-assign kernel behind `+=` is a violation); "
    "(R2) every assign kernel writes sink[(p1),(p2)] where each position is a scalar index minus one, an index-vector element minus one, a mask position, "
    "or a full traversal - first index row, second column - reads a vector source at the position of the same loop step, and never resizes the sink; "
    "(R3) kernels that write more than one element validate every index before the first write (otherwise a failing assignment leaves a partial write); "
    "(R4) the assignment / op-assignment dispatchers cover the same kinds as the read dispatchers. Not decided: value-level resize semantics."
    ' (R2, extended) an assignment kernel that writes the sink through fewer index positions than the assignment form has (a linear offset) is reported: the single bounds check against len() lets an out-of-range row or column address another element.'
    " (R5) operator families: for every index form the Add/Sub/Mul/Div (and plain) assign kernels have the same addressing normal form modulo the operator, so one member reading its source or sink differently from its siblings is reported; (R6) the assignment compilers hand (sink, index..., source) to the kernels in the role order the kernels' struct fields declare."
    ' (R4, chained dispatchers) in every `kind1-arms(arg).or_else(kind2-arms(arg))...` assignment dispatcher each numeric kind is tried by as many kernel families as the other kinds.'
    ' (R7) index operands keep their position in subscript_ref() and the four op-assign dispatchers: the j-th index value is evaluated from the j-th subscript.'
    " (R8) every assignment-dispatcher arm that takes a logical mask is guarded by `mask.len() == <sink extent>` so that a mask of the wrong length is rejected before anything is written."
)

OPS = {"Add": "+", "Sub": "-", "Mul": "*", "Div": "/"}
ONE_D = {"Scalar": "MatrixAssignScalar", "Range": "MatrixAssignRange", "All": "MatrixAssignAll"}


def nfc_structs(cg, all_nfc, by_name, nfc, pred):
    root = [f for f in all_nfc if re.match(r"<.*::%s as " % re.escape(nfc), f)]
    if len(root) != 1:
        return None
    reach = cg.reach(root, cut=all_nfc - set(root))
    out = set()
    for f in reach:
        b = cg.bodies.get(f)
        if not b or re.match(r"^<.* as ", f):
            continue
        for i, s in b.aggs():
            nm = s["adt"].split("::")[-1]
            fs = by_name.get(nm)
            if fs and fs.solve is not None and pred(fs):
                out.add(nm)
    return out


def check_assign_kernel(fs, k, forms, op=None):
    probs = []
    writes = [e for e in k.effects if e.kind == "write"]
    for e in k.effects:
        if e.kind in ("resize", "mutate") and root_of(e.target) == "sink":
            probs.append("resizes/restructures the sink: %r" % e)
        if e.kind == "write" and root_of(e.target) != "sink":
            probs.append("writes %s (not the sink)" % show(e.target))
    sw = [w for w in writes if root_of(w.target) == "sink"]
    if len(sw) != 1:
        probs.append("expected exactly one write to the sink, found %d" % len(sw))
        return probs
    w = sw[0]
    t = w.target
    v = w.value
    # value: source (scalar) or source[i]; for op-assign: (sink[p] op that)
    src = v
    if op is not None:
        if not (v[0] == "op" and v[1] == op):
            probs.append("update is `%s`, expected sink[p] %s= src" % (show(v), op))
            return probs
        if v[2] != t:
            if v[3] == t and op in ("+", "*"):
                src = v[2]
            else:
                probs.append("left operand of the update is %s, not the element being written (%s)" % (show(v[2]), show(t)))
                return probs
        else:
            src = v[3]
    def data_roots(x, out):
        if isinstance(x, tuple):
            if x and x[0] in ("len", "nrows", "ncols"):
                return out
            if x and x[0] == "root":
                out.add(x[1])
            if x and x[0] == "elem":
                data_roots(x[1], out)      # index expressions are positions, not data
                return out
            for y in x:
                data_roots(y, out)
        elif isinstance(x, list):
            for y in x:
                data_roots(y, out)
        return out
    dr = data_roots(src, set())
    if "sink" in dr:
        probs.append("the stored value reads the sink: %s" % show(src))
    if dr - {"source"}:
        probs.append("the stored value does not come from the source only: %s" % show(src))
    if t[0] == "root":
        comps = ()
    elif t[0] == "elem":
        base = t[1]
        comps = t[2]
    else:
        probs.append("unrecognised write target %s" % show(t))
        return probs
    if forms is not None and len(comps) != len(forms) and len(forms) == 2 and len(comps) == 1:
        probs.append("the sink is written through %d index position (%s) but the assignment form has %d: a linear offset is bounds-checked against len() only, so an out-of-range row or column addresses some other element instead of failing" % (
            len(comps), show(comps[0])[:60], len(forms)))
    if forms is not None and len(comps) == len(forms):
        cls = [classify_component(c, w, k) for c in comps]
        for pos, (c, form) in enumerate(zip(cls, forms)):
            kind, fld, var = c
            if kind.startswith("BAD"):
                probs.append("index position %d: %s" % (pos + 1, kind[4:]))
                continue
            # masks may also appear as conditions of the form `ixes[v]` (bool element) without == true
            if kind == "A" and var is not None:
                for cond in w.conds:
                    if cond[0] == "elem" and cond[2] == (var,):
                        kind, fld = "B", root_of(cond[1]) or show(cond[1])
                    if cond[0] == "op" and cond[1] == "!=" and cond[2][0] == "elem" and cond[2][2] == (var,) and cond[3] == ("int", 0):
                        probs.append("index position %d: an index vector (%s) is tested `!= 0` and its loop position is used as the index (treated as a mask)" % (pos + 1, show(cond[2][1])))
            ok = {"Scalar": ("S", "V"), "Range": ("V", "B"), "All": ("A",)}[form]   # a 1-element index vector generalises a scalar index
            if form == "Scalar" and kind == "A" and any(cond[0] == "root" for cond in w.conds):
                # logical scalar index (`x[true] = v`): the bool operand guards a full traversal
                continue
            if kind not in ok:
                probs.append("index position %d is a %s form but the kernel writes it as %s (%s)" % (pos + 1, form, kind, show(comps[pos])))
                continue
            if var is not None:
                li, lp = loop_of(w, var)
                if lp is not None and lp[0] == "range":
                    lo, hi, incl = lp[2], lp[3], lp[4]
                    if lo != ("int", 0) or incl:
                        probs.append("loop for position %d does not start at 0 / is inclusive" % (pos + 1))
                    if kind == "A" and len(forms) == 2 and hi[0] in ("nrows", "ncols") and ((pos == 0) != (hi[0] == "nrows")):
                        probs.append("position %d (%s) traverses %s of the sink" % (pos + 1, "row" if pos == 0 else "column", hi[0]))
        used = [c[1] for c in cls if c[1]]
        if len(used) == 2 and used[0] != used[1]:
            def order(f):
                m = re.search(r"\.\.?(\d)", str(f))
                return int(m.group(1)) if m else 99
            if order(used[0]) > order(used[1]):
                probs.append("row position uses %s and column position uses %s (operands swapped)" % (used[0], used[1]))
    return probs


def run(F, rep, tier):
    _run(F, rep, tier)
    from rules.c04_maskguard import run_r8
    run_r8(F, rep)


def _run(F, rep, tier):
    rep.rule("C04-R1", "routing: subscript_ref() compiles the assign family of each index-form pair; every compiler used by <op>_assign reaches only sink[p] := sink[p] OP src kernels")
    rep.rule("C04-R2", "assign kernels: 1-based per position, row/column roles, source aligned with the index step, sink never resized")
    rep.rule("C04-R3", "multi-element assign kernels validate their indices before the first write (failure atomicity)")
    rep.rule("C04-R4", "kind ladders of the assignment / op-assignment dispatchers equal those of the read dispatchers")
    crate = "mech_interpreter.lib"
    cg = CallGraph(F, [crate, "mech_core.lib", "mech_math.lib"])
    S = X.load_fxn_structs(F, [crate, "mech_math.lib"])
    by_name = {fs.name: fs for fs in S.values()}
    all_nfc = {f for f in cg.bodies if re.match(r"<.* as mech_core::functions::NativeFunctionCompiler>::compile$", f)}
    NON_NUM = re.compile(r"MechSet|MechTable|MechRecord|MechMap|MechTuple|MechEnum|MechAtom|Ref<Value>")
    is_assign = lambda fs: "sink" in dict(fs.fields) and "source" in dict(fs.fields) and not any(NON_NUM.search(t) for _, t in fs.fields)
    kernels = {}

    def kernel_of(nm):
        if nm not in kernels:
            fs = by_name[nm]
            try:
                kernels[nm] = Kernel(fs.solve, fs.fields)
            except Unrecognised as e:
                kernels[nm] = e
        return kernels[nm]

    # ---- R1a routing of subscript_ref
    rt = routing(F, "subscript_ref", "statements")
    rep.floor("C04-R1", "index-form arms in subscript_ref()", len(rt), 20)
    nfc_forms = {}
    for slots, shp, nfc, line in rt:
        if "?" in slots:
            continue
        exp = expected_nfc(slots, shp, ONE_D, "MatrixAssign")
        if exp is None:
            continue
        want, forms = exp
        ok = nfc == want
        rep.check(ok, "C04-R1", "subscript_ref:%s%s->%s" % ("x".join(slots), ("@" + shp.replace(" ", "")) if shp else "", want if ok else nfc),
                  "subscript_ref(): index forms %s with shape pattern %s compile %s, expected %s" % (list(slots), shp, nfc, want), "src/interpreter/src/statements.rs (expanded line %d)" % line)
        nfc_forms[nfc] = forms
    # ---- R2 on plain-assign kernels
    unrec = []
    n_k = 0
    multi_no_validation = []
    for nfc, forms in sorted(nfc_forms.items()):
        structs = nfc_structs(cg, all_nfc, by_name, nfc, is_assign)
        if not rep.check(structs is not None, "C04-R2", "nfc:%s" % nfc, "native compiler %s not found" % nfc):
            continue
        rep.floor("C04-R2", "assign structs reachable from %s" % nfc, len(structs), 1)
        for nm in sorted(structs):
            k = kernel_of(nm)
            if isinstance(k, Unrecognised):
                if nm not in unrec:
                    unrec.append(nm)
                    rep.note("unrecognised_kernels", {"struct": nm, "why": str(k)})
                continue
            n_k += 1
            probs = check_assign_kernel(by_name[nm], k, forms, None)
            key = "%s:%s" % (nfc, nm)
            rep.check(not probs, "C04-R2", key if not probs else "%s:%s" % (key, re.sub(r"[^a-z0-9]+", "-", probs[0].lower())[:70]),
                      "%s (assign forms %s): %s" % (nm, forms, "; ".join(probs)), "%s (%s)" % (nm, by_name[nm].crate),
                      sample={"struct": nm, "forms": forms, "normal_form": [repr(e) for e in k.effects][:3]})
            # R3: more than one element written (a loop) and indices come from an index vector => validation must precede
            ws = [e for e in k.effects if e.kind == "write" and root_of(e.target) == "sink"]
            if ws and ws[0].loops and any(c[0] == "op" and c[1] == "-" for c in (ws[0].target[2] if ws[0].target[0] == "elem" else ())):
                validated = any(e.kind in ("panic", "return") for e in k.effects)
                if not validated:
                    multi_no_validation.append(nm)
    rep.floor("C04-R2", "assign kernels normalised", n_k, 30)
    if unrec:
        rep.note("unrecognised_count", len(unrec))
    if multi_no_validation:
        names = sorted(set(multi_no_validation))
        rep.bad("C04-R3", "no-validation-before-write:%s" % ",".join(names),
                "%d multi-element assign kernels write element by element through `ix - 1` indexing with no validation pass before the first write: an out-of-range index fails after earlier elements were already overwritten (%s)" % (len(names), ", ".join(names)),
                "src/interpreter/src/stdlib/assign/matrix.rs")
    else:
        rep.ok("C04-R3", "validation-before-write")

    # ---- R1b op-assign routing
    op_fns = {}
    for it in F.syn(crate):
        if it["k"] == "fn" and it["name"] == "op_assign" and it["mod"].endswith("statements"):
            for m in find(it["body"], "match"):
                for arm in m[2]:
                    p = arm[0]
                    if p[0] == "ppath" and p[1].startswith("OpAssignOp::"):
                        v = p[1].split("::")[-1]
                        for c in find(arm[2], "call"):
                            pc = path_of(c[1])
                            if pc and re.match(r"^\w+_assign$", pc):
                                op_fns.setdefault(v, set()).add(("fn", pc))
                        for mc in find(arm[2], "mcall"):
                            if mc[2] == "compile" and is_node(mc[1]) and mc[1][0] == "struct":
                                op_fns.setdefault(v, set()).add(("nfc", mc[1][1]))
    rep.floor("C04-R1", "op-assignment operators routed in op_assign()", len(op_fns), 4)
    for v, targets in sorted(op_fns.items()):
        op = OPS.get(v)
        if op is None:
            rep.bad("C04-R1", "op-variant:%s" % v, "unknown op-assign variant %s" % v)
            continue
        nfcs = {}
        for kind, name in targets:
            if kind == "nfc":
                nfcs[name] = None
            else:
                for slots, shp, nfc, line in routing(F, name, "statements"):
                    exp = expected_nfc(slots, shp, {"Scalar": "S", "Range": "R", "All": "A"}, "")
                    nfcs[nfc] = exp[1] if exp else None
        rep.floor("C04-R1", "compilers used for %s=" % op, len(nfcs), 3)
        for nfc, forms in sorted(nfcs.items()):
            structs = nfc_structs(cg, all_nfc, by_name, nfc, is_assign)
            if not rep.check(structs is not None, "C04-R1", "nfc:%s" % nfc, "native compiler %s not found" % nfc):
                continue
            bad = []
            for nm in sorted(structs):
                k = kernel_of(nm)
                if isinstance(k, Unrecognised):
                    continue
                probs = check_assign_kernel(by_name[nm], k, forms, op)
                if probs:
                    bad.append((nm, probs[0]))
            if not structs:
                bad.append(("-", "no kernel reachable"))
            rep.check(not bad, "C04-R1", "%s=:%s" % (op, nfc) if not bad else "%s=:%s:%s" % (op, nfc, re.sub(r"[^a-z0-9]+", "-", bad[0][1].lower())[:50]),
                      "`x[..] %s= v` compiles %s, whose kernels are not sink[p] := sink[p] %s src: %s" % (op, nfc, op, "; ".join("%s: %s" % b for b in bad[:3])),
                      "src/interpreter/src/statements.rs", sample={"operator": op + "=", "compiler": nfc, "kernels": sorted(structs)[:6]})

    # ---- R5 operator families agree: <Op>Assign<Suffix> kernels of the four operators are the same kernel up to the operator
    rep.rule("C04-R5", "op-assignment kernel families: for each kernel suffix the Add/Sub/Mul/Div kernels have the same normal form up to the operator (targets, source positions, loops, conditions)")
    fam = defaultdict(dict)
    OPSYM = {"Add": "+", "Sub": "-", "Mul": "*", "Div": "/"}
    for nm in sorted(by_name):
        m = re.match(r"^(Add|Sub|Mul|Div)Assign(\w+)$", nm)
        if not m:
            continue
        k = kernel_of(nm)
        if isinstance(k, Unrecognised):
            continue
        form = []
        for e in k.effects:
            v = e.value
            if e.kind == "write" and root_of(e.target) == "sink" and isinstance(v, tuple) and v and v[0] == "op" and v[1] == OPSYM[m.group(1)]:
                vs = "OP(%s, %s)" % (show(v[2]), show(v[3]))
            else:
                vs = show(v) if isinstance(v, tuple) else str(v)
            form.append((e.kind, show(e.target), vs, tuple(show(l) for l in e.loops), tuple(show(c) for c in e.conds)))
        fam[m.group(2)][m.group(1)] = tuple(form)
    n5 = 0
    for suffix, ops_ in sorted(fam.items()):
        if len(ops_) < 3:
            continue
        n5 += 1
        counts = defaultdict(list)
        for o, f_ in ops_.items():
            counts[f_].append(o)
        if len(counts) == 1:
            rep.ok("C04-R5", "family:%s" % suffix, sample={"suffix": suffix, "operators": sorted(ops_)})
            continue
        major = max(counts.values(), key=len)
        for f_, os_ in counts.items():
            if os_ is major:
                continue
            ref = [k_ for k_, v_ in counts.items() if v_ is major][0]
            diff = [(a_, b_) for a_, b_ in zip(f_, ref) if a_ != b_][:1]
            for o in os_:
                rep.bad("C04-R5", "family:%s:%s-deviates" % (suffix, o),
                        "%sAssign%s differs from its %s sibling(s) beyond the operator: %s  vs  %s - `x[..] %s= v` addresses or guards its elements differently from the other op-assignments" % (
                            o, suffix, "/".join(sorted(major)), diff[0][0][1:3] if diff else "", diff[0][1][1:3] if diff else "", OPSYM[o]), "%sAssign%s" % (o, suffix))
    rep.floor("C04-R5", "op-assignment kernel families compared", n5, 8)

    # ---- R4 kind ladders
    disp = {}
    for c in (crate, "mech_math.lib"):
        for name, arms in dispatchers(F.syn(c), min_arms=8).items():
            kinds = set()
            for a in arms:
                for (kd, form, b) in a.pats:
                    if kd and kd not in ("_", "Index", "IndexAll", "Bool", "MatrixIndex", "MatrixBool", "Id", "Kind", "Typed", "MutableReference"):
                        kinds.add(re.sub(r"^Matrix", "", kd))
            disp[name] = kinds
    read = [ks for n, ks in disp.items() if re.search(r"access", n)]
    canon = set.intersection(*read) if read else set()
    numeric = {k for k in canon if re.match(r"^[UIF]\d+$|^R64$|^C64$", k)}
    rep.floor("C04-R4", "canonical numeric kinds from the read dispatchers", len(numeric), 12)
    n_d = 0
    for n, ks in sorted(disp.items()):
        if not re.search(r"assign|set_", n) or not (ks & numeric):
            continue
        n_d += 1
        want = numeric if not re.search(r"(add|sub|mul|div)_assign|op_assign", n) else {k for k in numeric}
        miss = sorted(want - ks)
        rep.check(not miss, "C04-R4", "%s" % n if not miss else "%s:missing:%s" % (n, ",".join(miss)),
                  "dispatcher %s has no arms for kind(s) %s although the read dispatchers and the other assignment dispatchers handle them: assignment to such a matrix/variable is rejected" % (n, miss),
                  "expanded %s" % n, sample={"dispatcher": n, "kinds": sorted(ks)})
    rep.floor("C04-R4", "assignment dispatchers", n_d, 5)
    # chained dispatchers: `kind1-arms(arg).or_else(|_| kind2-arms(arg))...` - one match per (kernel family, kind).  Every numeric kind of the
    # read dispatchers must be tried by as many of the chain's matches as the other kinds are (a kind left out of one family's chain is a
    # matrix of that kind the indexed assignment rejects).
    from lib.dispatch import value_pat
    n_c = 0
    for c in (crate, "mech_math.lib"):
        for it in F.syn(c):
            if it["k"] != "fn" or not re.search(r"assign.*_fxn$", it["name"]):
                continue
            per = {}
            n_m = 0
            for m in find(it["body"], "match"):
                ks = set()
                for a in m[2]:
                    p = a[0]
                    for alt in (p[1] if p[0] == "por" else [p]):
                        for (kd, form, b) in [value_pat(x) for x in (alt[1] if alt[0] == "ptuple" else [alt])]:
                            if kd and kd != "_":
                                ks.add(re.sub(r"^Matrix", "", kd))
                ks &= numeric
                if ks:
                    n_m += 1
                for k in ks:
                    per[k] = per.get(k, 0) + 1
            if n_m < 8 or not per:
                continue
            n_c += 1
            counts = sorted(per.get(k, 0) for k in numeric)
            mode = counts[len(counts) // 2]
            low = sorted(k for k in numeric if per.get(k, 0) < mode)
            rep.check(not low, "C04-R4", "chain:%s" % it["name"] if not low else "chain:%s:missing:%s" % (it["name"], ",".join("%s(%d/%d)" % (k, per.get(k, 0), mode) for k in low)),
                      "chained dispatcher %s tries kind(s) %s in fewer of its kernel families than the other numeric kinds (%d): an indexed assignment to a matrix of that kind is rejected where its siblings are accepted" % (
                          it["name"], low, mode), "expanded %s" % it["name"], sample={"dispatcher": it["name"], "per_kind": per})
    rep.floor("C04-R4", "chained assignment dispatchers", n_c, 15)
    rep.analysed = {"assign_compilers": sorted(nfc_forms), "kernels": n_k, "op_assign": {k: sorted(map(str, v)) for k, v in op_fns.items()}}
    from rules.loopshape import assign_compiler_operand_roles
    assign_compiler_operand_roles(F, rep, "C04-R6")
    from rules.loopshape import subscript_operand_positions
    subscript_operand_positions(F, rep, "C04-R7", r"^(subscript_ref|add_assign|sub_assign|mul_assign|div_assign)$", 25)
