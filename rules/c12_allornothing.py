"""C12-R8 — converting a collection converts EVERY element or fails: no element is dropped.

`Value::convert_to(kind)` returns None when the value has no conversion to the kind.  Wherever the conversion machinery applies it to the elements of a
collection (matrix -> set, matrix -> matrix through values) the Nones must reach an all-or-nothing consumer (`collect::<Option<Vec<_>>>()`, an
`unwrap_or_else(panic)` whose constructor already refused, `?`, `ok_or`): an adaptor that silently discards them - `filter_map`, `flat_map`, `flatten`,
`filter`, `map_while`, `take_while`, or `if let Some(v) = x.convert_to(k) { push }` without an else that fails - turns "a kind with no conversion is an error" into
"the offending elements vanish" (`s<{f64}> := ["a" "b"]` evaluates to the empty set) and "a set keeps exactly the distinct elements" into a subset."""
from lib.facts import find, is_node, walk, render
from lib import guards as G

DROPPERS = {"filter_map", "flat_map", "flatten", "filter", "map_while", "take_while", "skip_while", "find_map"}
FALLIBLE = {"convert_to"}


def _has_fallible(e):
    return any(is_node(n) and n[0] == "mcall" and n[2] in FALLIBLE for n in walk(e))


def _chain(e):
    """method-call chain of an expression, innermost receiver first: [(method, args, node)]"""
    out = []
    while is_node(e) and e[0] == "mcall":
        out.append((e[2], e[4] or [], e))
        e = e[1]
    return list(reversed(out))


def run_r8(F, rep):
    rep.rule("C12-R8", "collection conversions are all-or-nothing: the per-element `convert_to` result never feeds an adaptor that discards the Nones (filter_map / flat_map / flatten / "
                       "filter / map_while / take_while) and is never pushed under `if let Some` without a failing else: an element with no conversion is an error, not a dropped element")
    n = 0
    for it in F.syn("mech_interpreter.lib"):
        if it["k"] not in ("fn", "method") or not it.get("body") or not _has_fallible(it["body"]):
            continue
        name = it["name"] if it["k"] == "fn" else "%s::%s" % (it["self"].split("<")[0].strip(), it["name"])
        seen = set()
        for m in find(it["body"], "mcall"):
            ch = _chain(m)
            if not ch or id(ch[-1][2]) in seen:
                continue
            # only outermost chains
            seen.update(id(x[2]) for x in ch)
            elem = False     # the chain carries per-element conversion results from this point on
            for meth, args, node in ch:
                in_args = any(_has_fallible(a) for a in args)
                if meth in DROPPERS and (in_args or elem):
                    n += 1
                    rep.bad("C12-R8", "%s:%s-discards-unconvertible-elements" % (name, meth),
                            "%s applies `%s` to per-element conversion results: an element that has no conversion to the target kind is silently dropped instead of making the conversion fail" % (name, meth),
                            "src/interpreter (%s, expanded line %d)" % (name, it["line"]))
                    elem = False
                    break
                if in_args and meth in ("map", "for_each", "try_for_each", "fold", "try_fold", "map_or", "and_then"):
                    elem = True
            else:
                if elem:
                    n += 1
                    rep.ok("C12-R8", "%s:element-conversions-kept" % name, sample={"fn": name, "chain": [c[0] for c in ch]})
        # `if let Some(v) = x.convert_to(k) { .. push .. }` without else
        for site, facts in G.sites(it["body"], "if"):
            c = site[1]
            if is_node(c) and c[0] == "letc" and _has_fallible(c[2]) and "Some" in render(c[1]) and site[3] is None and \
                    any(is_node(x) and x[0] == "mcall" and x[2] in ("push", "insert", "extend") for x in walk(site[2])):
                n += 1
                rep.bad("C12-R8", "%s:if-let-some-push-without-else" % name,
                        "%s stores a converted element under `if let Some(..) = ..convert_to(..)` with no else: an element that has no conversion is silently skipped" % name,
                        "src/interpreter (%s, expanded line %d)" % (name, it["line"]))
    rep.floor("C12-R8", "iterator chains carrying per-element conversion results", n, 2)
