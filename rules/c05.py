"""C05 — bindings: who may insert symbols, mutable-only lookups on assignment paths, redefinition test,
no error after insertion, no aliasing at definition, catch_unwind at the evaluation boundary."""
import re
from collections import defaultdict
from lib.facts import CallGraph, find, is_node, path_of
from lib.mirq import Slice, calls_matching, edge_dominates, switch_on_call_result, PASS_THROUGH
from lib.mirinline import inline_body, result_flow_exits as result_exits, switches_on_bool_result, switches_on_option_result, feasible_reach, option_none_becomes_err, switches_on_option_result_through_adaptors

TECHNIQUE = ("who-may-call over the MIR call graph with the evaluator re-entry points cut; provenance of the assignment sink back to the "
             "mutable-variables map through summarised lookup helpers; CFG rules (redefinition test dominates insertion, no Err exit reachable after an "
             "insertion, evaluator runs inside catch_unwind); alias taint from a symbol cell's shallow clone to SymbolTable::insert")
EXPLANATION = (
    "Decides structural clauses of C05: (R1) SymbolTable insertion is reachable from the statement evaluators only for the define-family statements, never "
    "from assignment / op-assignment (evaluator re-entry cut); (R2) assignment evaluators obtain the cell they mutate only through lookups whose result "
    "derives exclusively from the mutable-variables map, and return NotMutable/Undefined otherwise; (R3) define-family evaluators test `contains` and exit "
    "with Err before inserting; (R4) no Err exit is reachable after a symbol insertion in the same evaluator; (R5) the value handed to insert is not a "
    "shallow clone of another symbol's cell; (R6) the public interpret entry runs the evaluator inside catch_unwind and no process::exit/abort is reachable "
    "from the evaluator. Not decided: equality of values before/after (runtime)."
    " (R5, re-keyed) each site that stores the result of the shallow detach helper is keyed by the provenance of what it hands to the helper (callees feeding it and number of shallow clones of a variable's cell content that reach it by plain copies; private helpers producing the value are expanded), so a new aliasing path is a new violation rather than hidden behind the known one; (R3) also accepts validate-all-then-insert-all over the same sequence; (R7) every path from FunctionScope::enter to a return of the caller restores the caller's symbol table, plan and environment (Drop of the guard or an explicit exit)."
    " (R8) operand roles of the assignment compilers: the value evaluated from the statement's right-hand side reaches the kernel's source field and the looked-up variable its sink field, on the native and on the fallback (Value-level) path."
    " Refactoring-robust view: R2-R5 run on the evaluator's body with the private helpers of its own crate that reach a symbol-table primitive expanded in place (lib/mirinline.py), "
    "follow a tested value through named locals / negations / dropped temporaries to the switch that tests it, classify Ok/Err exits by value flow, and prune paths that contradict "
    "a Result/Option variant built on the path (`helper(..)?` after `return Err(..)` inside the helper); R6 is a call-graph rule over the closures handed to catch_unwind."
    ' (R9) a failing indexed assignment changes nothing: every assignment kernel converts its 1-based index with the overflow-checked `ix - 1` (index 0 is rejected), never with a saturating / wrapping / clamped form.'
    " (R10) every define statement that binds several targets (enumerated from the arms of statement(): node type with a Vec<Identifier> field) is all-or-nothing over a finite table "
    "computed by evaluating the MIR of the dispatcher arm, the evaluator and every mech helper / closure it enters (lib/mirexec.py) over a model built by type - 1..4 targets x tuples of "
    "0..4 elements x right-hand side given directly / through a variable / not a tuple x no target or one target already bound (immutable / mutable): the evaluator returns Err and "
    "leaves the model symbol table unchanged exactly when a target is bound, there are more targets than elements or the source is not a tuple, and otherwise returns Ok with target j "
    "bound to element j and nothing else changed; what is decided is this table of the compiled control flow over the model, not the behaviour of a running interpreter "
    "(rows the model cannot evaluate are recorded as undecided)."
    " (R11) the same evaluation for the statements with one target name (node type reaches exactly one Identifier; enumerated from the arms of statement()): a define of a name that is "
    " (R12) validators - functions returning MResult<bool> whose body is a checking loop with an Err exit per mismatch (the schema checks that keep a table append atomic), found by shape - have no `return Ok(..)` in front of that loop."
    "already bound (immutably / mutably) and an assignment / op-assignment to an undefined or immutable name return Err and leave the model symbol table and the content of the "
    "existing cell unchanged, for every value of the statement's bool flags; a define of a free name returns Ok with exactly that name bound, mutable iff the statement says so "
    "(function compilers are assumed to succeed). Decided is the compiled control flow over the model, not a running interpreter."
    " (R2, R3 generalised) R2 also recognises a lookup written directly on a map field of the symbol table (`table.mutable_variables.get(&id)`: the field must be the mutable map) and "
    "follows the looked-up Option through None-preserving adaptors (`.map(..)`, `.cloned()`, `.as_ref()`) to the switch that tests it; R3 accepts a validation phase it cannot follow "
    "on the CFG (a closure handed to try_for_each / all / any) when the R10 table decides the redefinition clause for that evaluator."
)

INTERP = "mech_interpreter.lib"
CORE = "mech_core.lib"
REENTRY = re.compile(r"^mech_interpreter::(expressions::(expression|factor|formula|term)|functions::(function_call|execute_user_function)|state_machines::execute_fsm)")


def field_index(F, struct_suffix, field):
    for a in F.adts(CORE):
        if a["name"].endswith(struct_suffix) and not a["enum"]:
            for i, f in enumerate(a["variants"][0]["fields"]):
                if f[0] == field:
                    return i
    return None


def statement_arms(F):
    """Statement variant -> evaluator fn name, read from the arms of statement()"""
    out = {}
    for it in F.syn(INTERP):
        if it["k"] == "fn" and it["name"] == "statement" and it["mod"].endswith("statements"):
            for m in find(it["body"], "match"):
                for arm in m[2]:
                    p = arm[0]
                    if p[0] == "pts" and p[1].startswith("Statement::"):
                        calls = [path_of(c[1]) for c in find(arm[2], "call") if path_of(c[1]) and re.match(r"^[a-z_]+$", path_of(c[1]))]
                        if calls:
                            out[p[1].split("::")[-1]] = calls[0]
    return out


def _loops(b):
    """natural loops: header -> set of body blocks"""
    n = len(b.blocks)
    out = {}
    for x in range(n):
        for h in b.succ(x):
            if b.dominates(h, x):
                body = {h}
                st = [x]
                while st:
                    y = st.pop()
                    if y in body:
                        continue
                    body.add(y)
                    st.extend(b.pred(y))
                out.setdefault(h, set()).update(body)
    return out


ITER_ADAPTORS = re.compile(r"::enumerate$|::len$|::iter_mut$|::rev$|::by_ref$|::peekable$|::cloned$|::copied$|::as_slice$|::as_mut_slice$")


def _iter_roots(b, header, body):
    """what the loop walks: the non-constant roots of the receiver of the `next()` call in the loop, seen through the adaptors that keep the
    sequence (`v.iter().enumerate()`, `for i in 0..v.len()`, a named local for `&x.field`) - so an iterator loop and an index loop over the same
    vector agree, and so do a loop written inline and the same loop inside an expanded helper (parameters are plain copies of the arguments)"""
    sl = Slice(b, extra_pass=ITER_ADAPTORS)
    for blk in sorted(body):
        t = b.blocks[blk]["t"]
        if t["k"] == "call" and (t.get("f") or t["tf"]).endswith("::next") and t["args"]:
            roots = set()
            for r in sl.roots(t["args"][0]):
                if r[0] in ("const", "op", "agg"):
                    continue                            # `0..n` is an aggregate of a constant and n: what counts is where n comes from
                roots.add(str(r[1:]) if r[0] != "call" else "call:" + str(r[1]))
            return roots
    return None


def two_pass(b, ci, i):
    """the test at block ci sits in a loop that always runs to completion before the loop containing block i, and both loops walk the same sequence"""
    loops = _loops(b)
    l1 = [h for h, body in loops.items() if ci in body]
    l2 = [h for h, body in loops.items() if i in body]
    if not l1 or not l2:
        return False
    h1 = max(l1, key=lambda h: len(b.reachable_from([0]) & {h}) * 0 + (-len(loops[h])))   # innermost = smallest body
    h2 = max(l2, key=lambda h: -len(loops[h]))
    if h1 == h2 or i in loops[h1] or not b.dominates(h1, i):
        return False
    r1, r2 = _iter_roots(b, h1, loops[h1]), _iter_roots(b, h2, loops[h2])
    return r1 is not None and r1 == r2 and bool(r1)


def run(F, rep, tier):
    shallow_sites.clear()
    _relevant.clear()
    cg = CallGraph(F, [INTERP, CORE, "mech.lib", "mech_wasm.lib"])
    rep.rule("C05-R1", "SymbolTable insertion reachable only from define-family statement evaluators (assignment paths never create or replace a binding)")
    rep.rule("C05-R2", "assignment evaluators take the cell they mutate only from lookups that read the mutable-variables map")
    rep.rule("C05-R3", "define-family evaluators: `contains` test with an Err exit dominates every insertion")
    rep.rule("C05-R4", "no Err exit reachable after a symbol insertion within a statement evaluator")
    rep.rule("C05-R5", "the value inserted for a new binding is not a shallow clone of an existing symbol's cell (alias taint)")
    rep.rule("C05-R6", "interpret() runs the evaluator inside catch_unwind; no process::exit/abort reachable from the evaluator")
    arms = statement_arms(F)
    rep.floor("C05-R1", "statement() arms mapped to evaluators", len(arms), 5)
    DEFINE = {"VariableDefine", "TupleDestructure", "FsmDeclare", "KindDefine", "EnumDefine"}
    ASSIGN = {"VariableAssign", "OpAssign"}
    for v in arms:
        rep.check(v in DEFINE or v in ASSIGN, "C05-R1", "statement-variant-classified:%s" % v,
                  "statement variant %s is not classified as define-family or assignment: classify it in rules/c05.py" % v)
    ins = [f for f in cg.bodies if f.endswith("symbol_table::SymbolTable::insert")]
    rep.floor("C05-R1", "SymbolTable::insert", len(ins), 1)
    insert_fn = ins[0] if ins else None
    # direct writers of the symbol maps (HashMap::insert on a SymbolTable field) other than insert itself
    sym_i = field_index(F, "symbol_table::SymbolTable", "symbols")
    mut_i = field_index(F, "symbol_table::SymbolTable", "mutable_variables")
    rep.floor("C05-R2", "SymbolTable.mutable_variables field", 0 if mut_i is None else 1, 1)

    def reaches_insert(root):
        cut = {f for f in cg.bodies if REENTRY.match(f)}
        reach = cg.reach([root], cut=cut)
        return insert_fn in reach, reach

    evaluators = {f for f in cg.bodies if f.startswith("mech_interpreter::") and f.split("::")[-1] in set(arms.values()) | {"statement"}}
    # R10 first: its table also decides the redefinition clause (R3) for the evaluators it covers, whatever the spelling of their validation phase
    from rules import c05_table
    _table.clear()
    binders = set()
    for v_, fn_ in arms.items():
        if v_ in DEFINE:
            c_ = sorted((f for f in cg.bodies if f.startswith("mech_interpreter::") and f.endswith("::" + fn_)), key=len)
            if c_ and insert_fn and reaches_insert(c_[0])[0]:
                binders.add(v_)           # the define-family statements that bind VARIABLES (kind / enum definitions never reach the symbol table)
    _table.update(c05_table.run(F, rep, cg, arms, binders, REENTRY, [CORE, INTERP], assign=ASSIGN))
    from rules import c05_validators
    c05_validators.run(F, rep)   # R12: no success exit in front of a validator's checking loop
    for v, fn in sorted(arms.items()):
        full = "mech_interpreter::statements::%s" % fn
        if full not in cg.bodies:
            cands = [f for f in cg.bodies if f.endswith("::" + fn) and f.startswith("mech_interpreter::")]
            full = cands[0] if cands else full
        if not rep.check(full in cg.bodies, "C05-R1", "evaluator:%s" % fn, "evaluator %s not found in the MIR facts" % fn):
            continue
        hit, reach = reaches_insert(full)
        if v in ASSIGN:
            path = None
            if hit:
                cut = {f for f in cg.bodies if REENTRY.match(f)}
                path = cg.path([full], lambda f: f == insert_fn, cut=cut)
            rep.check(not hit, "C05-R1", "%s:no-insert" % fn,
                      "the %s evaluator can reach SymbolTable::insert (path: %s): an assignment could create or replace a binding" % (v, " -> ".join(path or [])), cg.bodies[full].where(),
                      sample={"statement": v, "evaluator": full, "reachable_bodies": len(reach)})
            # also no direct HashMap::insert on the symbol maps
        check_evaluator(F, rep, cg, v, full, v in ASSIGN, mut_i, sym_i, insert_fn, evaluators)

    for h, sites in sorted(shallow_sites.items()):
        per = defaultdict(int)
        for where_, ev_, sig in sorted(sites):
            per[(ev_, sig)] += 1
        for (ev_, sig), cnt in sorted(per.items()):
            if ev_ == "fsm_declare":
                rep.note("unconfirmed", "fsm_declare stores the result of the shallow %s for the declared machine variable (argument from [%s]); no program was found in which that value is another variable's cell (not reported)" % (h.split("::")[-1], sig))
                continue
            rep.bad("C05-R5", "%s:shallow-detach:%s:from[%s]:x%d" % (h.split("::")[-1], ev_, sig, cnt),
                    "%s stores for a new binding the result of %s, which returns a plain clone of its argument (Ref cells are shared); the argument derives from [%s]: when that is the value of an existing variable, "
                    "the new name aliases it (%d site(s))" % (ev_, h, sig, cnt), cg.bodies[h].where() if h in cg.bodies else "")
    # R6
    interp = [b for f, b in cg.bodies.items() if re.search(r"interpreter::Interpreter::interpret$", f)]
    rep.floor("C05-R6", "Interpreter::interpret", len(interp), 1)
    CU = re.compile(r"std::panic::catch_unwind$|panicking::(r#)?try$|panic::catch_unwind")
    EVAL = re.compile(r"mechdown::program$|statements::statement$")
    eval_fns = {f for f in cg.bodies if EVAL.search(f)}
    for b in interp:
        # Call-graph formulation (insensitive to where in interpret's own code - inline, in a private helper, behind a named closure - the boundary
        # is written): the closures handed to catch_unwind anywhere on the way from interpret to the evaluator are the GUARDED entries; the
        # evaluator must be reachable through a guarded entry and must not be reachable from interpret once the guarded entries are cut out.
        before_eval = cg.reach([b.fn], cut=eval_fns)
        guarded = set()
        n_cu = 0
        for f in sorted(before_eval):
            fb = cg.bodies.get(f)
            if fb is None or fb.crate != b.crate:
                continue
            for i, t in calls_matching(fb, CU):
                n_cu += 1
                from lib.facts import fns_in_type
                for g in t.get("ga", []):
                    guarded |= set(fns_in_type(g))
                for a_ in t.get("args", []):
                    if isinstance(a_, dict) and "fn" in a_:
                        guarded |= set(fns_in_type(a_["fn"]))
        ok = any(cg.reach([g]) & eval_fns for g in sorted(guarded))
        rep.check(ok, "C05-R6", "interpret:catch_unwind", "Interpreter::interpret does not run the program evaluator inside catch_unwind: a panicking statement aborts the host", b.where(),
                  sample={"catch_unwind_calls": n_cu})
        # evaluator reachable outside catch_unwind?
        unprotected = sorted(cg.reach([b.fn], cut=guarded) & eval_fns)
        path = cg.path([b.fn], lambda f: f in eval_fns, cut=guarded) if unprotected else None
        rep.check(not unprotected, "C05-R6", "interpret:no-unprotected-evaluation", "interpret() can reach the program evaluator outside catch_unwind (%s)" % " -> ".join(path or unprotected), b.where())
    roots = [f for f in cg.bodies if re.search(r"mechdown::program$", f)]
    if roots:
        reach = cg.reach(roots)
        bad = sorted(f for f in reach if re.search(r"^std::process::(exit|abort)$", f))
        rep.check(not bad, "C05-R6", "evaluator:no-process-exit", "process exit/abort reachable from the evaluator: %s" % bad)
    from rules.loopshape import scope_restored_on_every_exit
    scope_restored_on_every_exit(F, rep, "C05-R7")
    from rules.loopshape import assign_compiler_operand_roles
    assign_compiler_operand_roles(F, rep, "C05-R8")
    from rules.loopshape import assign_index_zero_rejected
    assign_index_zero_rejected(F, rep, "C05-R9")


shallow_sites = defaultdict(list)
_table = {}


DATA_PASS_THROUGH = re.compile(PASS_THROUGH.pattern.replace(r"::from_residual$|", ""))
assert "from_residual" not in DATA_PASS_THROUGH.pattern
PRIMITIVE = re.compile(r"(symbol_table::SymbolTable|program::ProgramState)::(get\w*|contains\w*)$")
_relevant = {}


def evaluator_view(cg, full, insert_fn, evaluators=(), values=False):
    """The evaluator's body with the private helpers of its own crate that (without re-entering the expression evaluator) reach a symbol-table
    primitive - insertion, `contains*`, `get*` - expanded in place: a guard, an insertion or a lookup that a refactoring moved into a helper
    (or two inline copies merged into one helper) is then inspected exactly as if it were still written inline. On a tree where no such helper
    exists the view IS the body."""
    b = cg.bodies[full]
    cut = {f for f in cg.bodies if REENTRY.match(f)}
    prims = {f for f in cg.bodies if PRIMITIVE.search(f)}
    if insert_fn:
        prims.add(insert_fn)

    def want(cal):
        cb = cg.bodies.get(cal)
        if cb is None or cb.crate != b.crate or REENTRY.match(cal) or cal in evaluators or cal in prims:
            return False
        k = (cal, bool(values))
        if k not in _relevant:
            _relevant[k] = bool(cg.reach([cal], cut=cut) & prims)
            # define family: a private, non-recursive helper that RETURNS a Value (or a Result/Option of one) produces what may end up bound to the
            # new name: the provenance of the inserted value (R5) is followed through it (a conversion step extracted into a helper keeps the
            # roots `expression` / `out` it had inline). A self-recursive helper (the detach helper) stays a call: it is summarised, not expanded.
            if values and not _relevant[k] and not cb.pub and cal not in cb.mentioned_fns() \
                    and re.match(r"^(core::result::Result<|core::option::Option<)?mech_core::value::Value\b", cb.locals[0]):
                _relevant[k] = True
        return _relevant[k]
    return inline_body(b, cg, want, max_depth=3)


def check_evaluator(F, rep, cg, variant, full, is_assign, mut_i, sym_i, insert_fn, evaluators=()):
    b = evaluator_view(cg, full, insert_fn, evaluators, values=not is_assign)
    for rec in b.inlined:
        rep.note("followed", "%s: helper %s (called at line %s) inspected as part of the evaluator" % (full.split("::")[-1], rec["callee"], rec["site_line"]))
    sl = Slice(b)
    if is_assign:
        # R2: every symbol-cell lookup used by this evaluator is a mutable lookup
        lookups = []
        direct = {}
        for i, t in b.calls():
            cal = t.get("f") or t["tf"]
            if re.search(r"(symbol_table::SymbolTable|program::ProgramState)::(get\w*)$", cal) and re.search(r"Option<.*Ref<.*Value", b.locals[t["d"][0]]):
                lookups.append((i, t, cal))
            elif re.search(r"hash::map::HashMap::<K, V, S(, A)?>::get(_mut)?$", cal) and re.search(r"Option<.*Ref<.*Value", b.locals[t["d"][0]]) and t["args"]:
                # the accessor inlined by hand: `table.mutable_variables.get(&id)` - a lookup in a map that is a FIELD of the symbol table
                fld = symbol_table_field(b, sl, t["args"][0])
                if fld is not None:
                    direct[i] = fld
                    lookups.append((i, t, cal))
        rep.floor("C05-R2", "symbol-cell lookups in %s" % full.split("::")[-1], len(lookups), 1)
        for i, t, cal in lookups:
            if i in direct:
                ok, why = direct[i] == mut_i, "reads field %s of the symbol table, which is not the mutable-variables map" % direct[i]
            else:
                ok, why = mutable_only(cg, cal, mut_i, set())
            rep.check(ok, "C05-R2", "%s:lookup:%s" % (full.split("::")[-1], cal.split("::")[-1]),
                      "%s takes the cell it assigns to from %s, which %s: an immutable variable can be modified" % (full, cal, why), "%s:%d" % (b.file, t["l"]),
                      sample={"evaluator": full, "lookup": cal, "line": t["l"]})
            # None branch must lead to Err exits only (NotMutable / UndefinedVariable)
            ok_exits, err_exits = result_exits(b)
            tests = switches_on_option_result_through_adaptors(b, i, t)
            nkey = "%s:none-branch-errs:%s" % (full.split("::")[-1], cal.split("::")[-1])
            for swb, some_t, none_t in tests[:1]:
                r = feasible_reach(b, [none_t])
                rep.check(bool(r & err_exits) and not (r & ok_exits) and some_t not in r, "C05-R2", nkey,
                          "when the mutable lookup fails %s does not return an error on every path" % full, "%s:%d" % (b.file, t["l"]))
            if not tests:
                if option_none_becomes_err(b, i, t):
                    rep.ok("C05-R2", nkey)           # `.ok_or_else(|| err)?`: None is an Err exit by construction
                else:
                    rep.note("undecided", "%s: the Option returned by %s (line %s) is not tested by a match / if let / let-else / ok_or..? that this rule can follow; "
                                          "what happens when the lookup fails was not checked" % (full, cal, t["l"]))
        return
    # define family
    if insert_fn is None:
        return
    cut = {f for f in cg.bodies if REENTRY.match(f)}
    # insertion call sites in this body: calls whose callee reaches insert (without re-entry)
    sites = []
    for i, t in b.calls():
        cal = t.get("f") or t["tf"]
        # an insertion site is any call that may insert (whatever it is called); helpers of the evaluator's own crate were expanded above, what is
        # left is the symbol-table API itself (SymbolTable::insert, ProgramState::save_symbol, ...) or a helper nested too deep to expand
        if cal == insert_fn or (cal in cg.bodies and not REENTRY.match(cal) and insert_fn in cg.reach([cal], cut=cut)):
            sites.append((i, t, cal))
    if variant in ("KindDefine", "EnumDefine"):
        return
    rep.floor("C05-R3", "symbol insertion sites in %s" % full.split("::")[-1], len(sites), 1)
    # who-may-insert sites INSIDE LOOPS: an evaluator that binds several names must be driven by the all-or-nothing table (C05-R10), which enumerates
    # its evaluators by node type; one that binds in a loop without naming its targets in a Vec<Identifier> is recorded, not silently skipped
    in_loop = [i for i, t, cal in sites if any(i in body for body in _loops(b).values())]
    if in_loop and full not in _table:
        rep.note("undecided", "%s inserts symbols inside a loop (%d site(s)) but its node type names no Vec<Identifier>: the all-or-nothing table (C05-R10) cannot drive it; "
                              "what its validation phase tests was not decided" % (full, len(in_loop)))
    elif in_loop:
        rep.note("followed", "%s inserts symbols inside a loop (%d site(s)): covered by the all-or-nothing table (C05-R10)" % (full, len(in_loop)))
    ok_exits, err_exits = result_exits(b)
    contains = [(i, t) for i, t in b.calls() if re.search(r"(SymbolTable|ProgramState)::contains(_symbol)?$", t.get("f") or t["tf"])]
    # "the name is already bound" tests: (block, call, branches) with branches = [(switch block, target when bound, target when free)]
    #   table.contains(id)                                   -> the switch on the bool
    #   table.get*(id).is_some() / .is_none()                -> the switch on the bool (is_none: polarity flipped)
    #   if let Some(_) = table.get*(id) / match .. / let-else -> the switch on the Option's discriminant
    LOOKUP = re.compile(r"(symbol_table::SymbolTable|program::ProgramState)::get\w*$")
    bound_tests = [(ci, ct, switches_on_bool_result(b, ci, ct)) for ci, ct in contains]
    for ci, ct in b.calls():
        c_ = ct.get("f") or ct["tf"]
        if LOOKUP.search(c_) and b.locals[ct["d"][0]].startswith("core::option::Option<"):
            bound_tests.append((ci, ct, switches_on_option_result(b, ci, ct)))
        elif re.search(r"option::Option::<T>::is_(some|none)$", c_) and ct["args"] and any(LOOKUP.search(r_) for r_ in sl.root_calls(ct["args"][0])):
            br = switches_on_bool_result(b, ci, ct)
            bound_tests.append((ci, ct, br if c_.endswith("is_some") else [(w, f_, t_) for w, t_, f_ in br]))
    for i, t, cal in sites:
        # R3
        good = False
        for ci, ct, branches in bound_tests:
            for swb, t_true, t_false in branches:
                # everything the "already bound" branch can reach: Err exits only - never an Ok exit, never the insertion, and never the
                # "free" branch itself (a guard whose body falls through, e.g. behind an extra condition, rejects nothing)
                rt = feasible_reach(b, [t_true])
                errs_only = bool(rt & err_exits) and not (rt & ok_exits) and i not in rt and t_false not in rt
                if errs_only and b.dominates(swb, i):
                    good = True
                elif errs_only and two_pass(b, ci, i):
                    good = True          # validate-all-then-insert-all over the same sequence
        if not good and _table.get(full, {}).get("target-already-bound") == "ok":
            # the validation phase is written in a form the CFG rule does not follow (a closure handed to try_for_each / all / any ...): the clause is
            # decided by the finite table of C05-R10 - for every number of targets and every already-bound target the evaluator returns Err and binds nothing
            good = True
            rep.note("followed", "%s: redefinition test before the insertion at line %d decided by the all-or-nothing table (C05-R10), not by dominance" % (full, t["l"]))
        if variant == "FsmDeclare":
            if not good:
                rep.note("unconfirmed", "%s inserts a symbol (line %d) with no dominating redefinition test (no failing input established; not reported)" % (full, t["l"]))
            good = True
        rep.check(good, "C05-R3", "%s:redefinition-test:%s" % (full.split("::")[-1], cal.split("::")[-1]),
                  "%s inserts a symbol (line %d) without a dominating `contains` test that exits with Err: an existing name can be redefined" % (full, t["l"]), "%s:%d" % (b.file, t["l"]),
                  sample={"evaluator": full, "insert_line": t["l"], "contains_tests": [c[1]["l"] for c in contains]})
        # R4: Err exit reachable after the insertion
        after = feasible_reach(b, [t["t"]]) if "t" in t else set()
        errs = sorted(after & err_exits)
        lines = sorted({b.blocks[e]["t"].get("l", 0) or max([s.get("l", 0) for s in b.blocks[e]["s"]] or [0]) for e in errs})
        rep.check(not errs, "C05-R4", "%s:no-error-after-insert:%s:x%d" % (full.split("::")[-1], cal.split("::")[-1], len(lines)),
                  "%s: after the symbol insertion at line %d an Err exit is still reachable (lines %s): a failing statement leaves a new binding behind" % (full, t["l"], lines), "%s:%d" % (b.file, t["l"]),
                  sample={"evaluator": full, "insert_line": t["l"]})
        # R5 alias taint: the inserted value
        val_arg = None
        tb = cg.bodies.get(cal)
        if tb:
            for ai in range(1, tb.nargs + 1):
                if tb.locals[ai] == "mech_core::value::Value":
                    val_arg = ai - 1
        if val_arg is not None and val_arg < len(t["args"]):
            # the value that is bound: the Err that a `?` inside an expanded helper hands back (from_residual) is not data that reaches the binding
            sl5 = Slice(b, passthrough=DATA_PASS_THROUGH)
            roots = {r for r in sl5.roots(t["args"][val_arg]) if not (r[0] == "call" and r[1].endswith("from_residual"))}
            # a chain made only of moves/clones back to a borrow of a symbol cell => alias. Anything else breaks the chain.
            calls = [r for r in roots if r[0] == "call"]
            detach = [r for r in calls if re.search(r"detach|deep_copy|deep_clone", r[1])]
            shallow = []
            for r in calls:
                c = cg.bodies.get(r[1])
                if c is not None and re.search(r"detach", r[1]):
                    # summarise the helper: does it return a plain Clone::clone of its argument?
                    cs = Slice(c)
                    rr = cs.roots([0, ""])
                    if any(x[0] == "arg" for x in rr) and not any(x[0] == "call" and not PASS_THROUGH.search(x[1]) and x[1] != r[1] for x in rr):
                        shallow.append(r[1])
            for h in sorted(set(shallow)):
                # what is handed to the shallow helper at this site: the names of the calls its argument derives from
                sigs = set()
                for r in calls:
                    if r[1] == h and len(r) > 2 and isinstance(r[2], int):
                        ht = b.blocks[r[2]]["t"]
                        for rr in sl5.roots(ht["args"][0]) if ht.get("args") else []:
                            if rr[0] == "call" and rr[1].endswith("from_residual"):
                                continue
                            if rr[0] == "call":
                                nm = re.sub(r"<.*?>", "", rr[1])
                                sigs.add(nm.split("::")[-1] if "::" in nm else nm)
                            elif rr[0] == "agg" and re.search(r"(result::Result|option::Option|control_flow::ControlFlow)::\w+$", rr[1]):
                                continue                # the Ok(..) / Some(..) wrapper of an expanded helper's return value: what is inside is followed
                            else:
                                sigs.add(rr[0])
                        # how many shallow clones of a variable's CELL CONTENT reach the helper by plain copies (moves, references, pass-through
                        # calls - no computing call in between): `Value::MutableReference(v)` -> `v.borrow().clone()` -> .. -> helper. Each is a
                        # way for an existing variable's storage to become the new binding's storage besides the helper's own shallow clone.
                        # (This replaces the former count of plain copies through named locals, which moved with every named temporary, merged
                        # duplicate or extracted helper; the clone-of-cell-content sites are counted by source position, so the expansion of one
                        # helper at two call sites counts once.)
                        sigs.add("cellclones=%d" % cell_content_clones(b, sl5, ht["args"][0]) if ht.get("args") else "cellclones=0")
                shallow_sites[h].append(("%s:%d" % (full.split("::")[-1], t["l"]), full.split("::")[-1], ",".join(sorted(sigs))[:80]))
            if not shallow:
                rep.ok("C05-R5", "%s:inserted-value-detached" % full.split("::")[-1], sample={"roots": sorted(map(str, calls))[:6]})


def symbol_table_field(b, sl, operand):
    """index of the SymbolTable field that `operand` (a reference to a map) is a projection of, through named locals and reborrows; None when it is not one"""
    seen = set()
    st = [operand[0]] if isinstance(operand, list) else []
    while st:
        l = st.pop()
        if l in seen:
            continue
        seen.add(l)
        for _, s_ in sl.defs.get(l, []):
            if s_.get("rk") not in ("ref", "use", "rawptr") or not s_.get("src") or not isinstance(s_["src"][0], list):
                continue
            base, proj = s_["src"][0][0], s_["src"][0][1]
            m = re.match(r"^\*?\.(\d+)$", proj or "")
            if m and re.search(r"symbol_table::SymbolTable$", b.locals[base].replace("&mut ", "").lstrip("&").strip()):
                return int(m.group(1))
            if proj in ("", "*"):
                st.append(base)
    return None


def cell_content_clones(b, sl, operand):
    """number of distinct source positions of `Clone::clone` calls on the plain-copy backward slice of `operand` whose receiver is (a borrow / deref of)
    the payload of a `Value::MutableReference`, i.e. the content of some variable's cell"""
    feeding = sl.locals_feeding(operand)
    sites = set()
    for l in feeding:
        for blk_, s_ in sl.defs.get(l, []):
            if s_.get("k") != "call" or not (s_.get("f") or s_["tf"]).endswith("::clone") or not s_.get("args") or not isinstance(s_["args"][0], list):
                continue
            recv = sl.locals_feeding(s_["args"][0])
            payload = False
            for r_ in recv:
                for _, d_ in sl.defs.get(r_, []):
                    for o_ in d_.get("src", []) or []:
                        if isinstance(o_, list) and len(o_) > 1 and "@MutableReference" in str(o_[1]):
                            payload = True
            if payload:
                sites.add((getattr(b, "origin", {}).get(blk_, b.fn), s_.get("l")))
    return len(sites)


def mutable_only(cg, fn, mut_i, seen):
    """does the function's return value derive only from the mutable-variables map?"""
    if fn in seen:
        return True, ""
    seen.add(fn)
    b = cg.bodies.get(fn)
    if b is None:
        return False, "is not analysable"
    sl = Slice(b, extra_pass=re.compile(r"::cloned$|::copied$|::map$|::and_then$|::or_else$|::or$"))
    roots = sl.roots([0, ""])
    ok_any = False
    for r in roots:
        if r[0] == "call":
            cal = r[1]
            if re.search(r"hash::map::HashMap::<K, V, S, A>::get$|hash::map::HashMap::<K, V, S>::get$", cal):
                # receiver must be a projection of the mutable_variables field
                blk = r[2]
                t = b.blocks[blk]["t"]
                recv = t["args"][0]
                fld = None
                for bi, s in sl.defs.get(recv[0], []):
                    if s.get("rk") == "ref" and s["src"] and isinstance(s["src"][0], list):
                        m = re.search(r"\.(\d+)$", s["src"][0][1])
                        if m:
                            fld = int(m.group(1))
                if fld != mut_i:
                    return False, "reads a map other than mutable_variables (field %s)" % fld
                ok_any = True
            elif re.search(r"(symbol_table::SymbolTable|program::ProgramState)::\w+$", cal):
                ok, why = mutable_only(cg, cal, mut_i, seen)
                if not ok:
                    return False, "calls %s, which %s" % (cal, why)
                ok_any = True
            elif re.search(r"RefCell<T>::borrow|Ref<T>::borrow|::borrow$|::borrow_mut$", cal):
                continue
            else:
                continue
        elif r[0] == "agg" and r[1].endswith("Option::None"):
            continue
    if not ok_any:
        return False, "does not read the mutable-variables map"
    return True, ""
