"""C10-R12 — inside a statement, the white space between an operand and the infix operator that follows it does not cross a line end.

Clause: "titles, paragraphs, lists, quotes, tables ... never change any value".  The code parser is tried before every prose parser, so a statement that may
CONTINUE on the next line swallows the prose element standing there whenever that element begins with something the statement can continue with: a list bullet
`- item` is a spaced minus, a quote `> text` a comparison, a table bar `| a |` a logical or, a thematic break `***` a product, and a paragraph can begin with any
symbol.  Necessary on the parser side (decided here from the parser skeletons, lib/grammar.py + lib/linegram.py; nothing is parsed or run):

 A  formula operators.  The precedence levels of the formula grammar are found by SHAPE among all parser functions (`NEXT, *( OP, NEXT )` with a function of the
    same return type as NEXT), the operators of a level are the leaves of OP (alternatives and helper parsers looked through).  For every leaf operator: every
    blank parser applied between the left operand and the operator's token (in the level function, in the operator class, in the operator itself, in private
    helpers such as ws0e / ws1e / space_tab) has an alphabet without a line end.  Also: no step of a level function is a blank parser that accepts a line end
    (white space appended to the operand is white space in front of the next operator).
 B  statement operators.  Every straight-line parser function reachable from the code parser that has the infix shape `OPERAND .. OP OPERAND`, is not opened by a
    sigil of its own, and whose OP is a padded token (blanks, token) is a site.  Where its leading blanks accept a line end (`x\\n  := 5` is accepted on purpose
    today) the operator's token must not be able to begin a sigil-led prose element: the prose starts are computed from the alternatives of the generic prose
    parser (the function returning SectionElement that is not the code parser; lists, quotes, call-outs, tables, breaks ..: first token + what may follow it).
The behaviour itself (which documents parse to which tree, what the statement evaluates to) is not decided.
"""
import re
from lib.facts import find, walk, is_node, path_of, last_seg
from lib.grammar import Grammar
from lib.linegram import LineGrammar, parser_applications, show

R = "C10-R12"
ANY = "<any text>"


def _plain_parsers(G, extra_params=False):
    """parser functions proper: the (first) parameter is the ParseString input; `extra_params`: further non-parser parameters allowed (`list(input, level)`) -
    the crate's own combinators (`tuple`, `label..`) take parsers, not input"""
    out = {}
    for n, it in G.fns.items():
        ins = it.get("sig", {}).get("inputs", [])
        if ins and re.sub(r"\s|\bmut\b", "", str(ins[0][1])) == "ParseString" and (len(ins) == 1 or (extra_params and not any(re.search(r"\bFn\b|impl|ParseResult", str(i[1])) for i in ins[1:]))):
            out[n] = it
    return out


def named_parsers(it, P):
    """parser functions named in the body of `it` - applied, handed to a combinator or another call (`Box::new(p)`), applied inside a closure - in source order, once
    each.  A name bound by a pattern of the function (a local that happens to be spelled like a parser) is not a parser."""
    local = {p[1] for p in find(it["body"], "pident")}
    out = []
    for n in walk(it["body"]):
        if n[0] != "call":
            continue
        cands = [n[1]] + [a for a in n[2] if is_node(a)]
        if len(n[2]) == 1 and is_node(n[2][0]) and n[2][0][0] in ("tuple", "closure"):
            cands[0] = None          # comb((p, q)) / comb(|i| ..): the callee is a combinator, whatever parser of the crate shares its name (nom's `tuple`)
        for ci, c in enumerate(cands):
            while is_node(c) and c[0] in ("ref", "paren"):
                c = c[2] if c[0] == "ref" else c[1]
            if is_node(c) and c[0] == "tuple":
                cands += [x for x in c[1] if is_node(x)]
                continue
            if is_node(c) and c[0] == "path" and isinstance(c[1], str):
                s = last_seg(c[1])
                if s in P and s != it["name"] and s not in out and (ci == 0 or c[1] not in local):
                    out.append(s)
    return out


def level_shape(L, G, name):
    """(next level, operator term, right operand) when `name` is a precedence level `NEXT, *( OP, NEXT' )` - else None"""
    st = L.steps(name)
    if not st or len(st) < 2:
        return None
    core = [t for t in st if t[0] not in ("la",) and not L.is_blank_term(t)]
    if len(core) != 2 or core[0][0] != "nt" or core[1][0] not in ("star", "plus"):
        return None
    rep = core[1][1]
    if rep[0] != "seq" or len(rep[1]) < 2:
        return None
    parts = [t for t in rep[1] if t[0] != "la"]
    right = parts[-1]
    if right[0] != "nt" or G.ret_type(right[1]) != G.ret_type(name) or G.ret_type(core[0][1]) != G.ret_type(name):
        return None
    op = parts[:-1]
    return core[0][1], op, right[1]


def follow_of(L, rest):
    """what may stand directly after a leading sigil: a set of literals, or ANY"""
    acc = set()
    for t in rest:
        if t[0] in ("la", "empty"):
            continue
        a = L.alphabet(t)
        if a is None or not a:
            l, nul, comp = L.first_lits(t)
            if not comp or not l:
                return ANY
            acc |= l
        else:
            acc |= a
        if not L.nullable(t):
            return acc
    return acc or ANY


def _follow_items(L, items):
    """what may stand directly after a leading sigil, from the items behind it: a set of literals, or ANY"""
    acc = set()
    for it in items:
        if it.kind == "LA":
            continue
        if it.kind in ("NL", "BLANK", "WSNL", "TOK", "MARK") and (it.lits or it.kind == "NL"):
            acc |= set(it.lits or L.alphabet(it.term) or {"\n"})
        else:
            fol = follow_of(L, [it.term])
            if fol == ANY:
                return ANY
            acc |= fol
        if it.mandatory:
            return acc
    return acc or ANY


def prose_starts(L, P, name, depth=0, seen=None, via_flow=False):
    """[(recogniser, sigil literal, follow set | ANY)] - the sigils with which the prose element recognised by `name` can begin.  A recogniser that begins with
    free text (a paragraph) has no sigil and contributes nothing."""
    seen = set() if seen is None else seen
    if name in seen or depth > 4 or name not in L.G.fns:
        return []
    seen.add(name)
    items = L.items(name)
    out = []
    if items:
        k = 0
        # optional leading parts (look-aheads, blanks, an optional sign) are skipped: the sigil of an element is its first MANDATORY token
        while k < len(items) and (items[k].kind == "LA" or not items[k].mandatory):
            k += 1
        if k == len(items):
            return out
        lead = items[k]
        if len(items) == 1 and lead.kind == "TOK" and via_flow:
            return out          # a bare token parser named inside hand-written control flow: what follows it there is not known from here
        if lead.kind in ("TOK", "MARK") and lead.lits and all(x.strip() for x in lead.lits):
            fol = _follow_items(L, items[k + 1:])
            if lead.kind == "MARK" and lead.term[0] in ("plus", "star") and fol != ANY:
                fol = set(fol) | set(lead.lits)          # a marker run: the marker may follow itself
            out += [(name, s, fol) for s in sorted(lead.lits)]
            if lead.mandatory:
                return out
        if lead.kind == "CONTENT":
            t = lead.term
            subs = [x[1] for x in t[1]] if t[0] == "alt" and all(x[0] == "nt" for x in t[1]) else ([t[1]] if t[0] == "nt" else
                   ([t[1][1]] if t[0] in ("plus", "star", "opt") and t[1][0] == "nt" else []))
            for sub in subs:
                out += prose_starts(L, P, sub, depth + 1, seen)
        return out
    # consumption hidden in control flow (indent counting loops, hand-written alternatives): the recognisers it names
    for sub in named_parsers(L.G.fns[name], P):
        out += prose_starts(L, P, sub, depth + 1, seen, True)
    return out


def site_of(L, path):
    """the leaf operator a lead path belongs to: the first helper parser entered that is more than a wrapper around alternatives (it applies blanks or holds
    the token itself); the function holding the token otherwise"""
    for n in path[4]:
        st = [t for t in (L.steps(n) or []) if t[0] != "la"]
        if len(st) == 1 and st[0][0] in ("alt", "nt"):
            continue
        return n
    return path[2]


def conflicts(tok, start, follow):
    """can a line that begins with the prose sigil `start` (followed by `follow`) be read as beginning with the operator token `tok`?"""
    if tok == start or start.startswith(tok):
        return True
    if tok.startswith(start):
        r = tok[len(start):]
        if follow == ANY:
            return True
        return any(f and (r.startswith(f) or f.startswith(r)) for f in follow)
    return False


def run_r12(F, rep):
    rep.rule(R, "white space between an operand and the infix operator after it accepts no line end (formula operators: all; statement operators that do: their token "
                "cannot begin a sigil-led prose element) - a statement does not continue into the prose line below it")
    syn = F.syn("mech_syntax.lib")
    G = Grammar(syn)
    L = LineGrammar(G)
    P = _plain_parsers(G)
    PX = _plain_parsers(G, True)

    code_parsers = sorted(n for n in P if "MechCode" in (G.ret_type(n) or ""))
    if not rep.check(len(code_parsers) >= 1, R, "anchor:code-parser", "no parser function returning MechCode found in mech_syntax"):
        return

    # ---- prose starts: the alternatives of the generic prose parser
    generic = sorted(n for n in P if (G.ret_type(n) or "") == "SectionElement" and L.steps(n) is None and len(named_parsers(P[n], PX)) >= 4)
    starts = []
    for g in generic:
        for alt_name in named_parsers(P[g], PX):
            if alt_name in code_parsers or "MechCode" in (G.ret_type(alt_name) or ""):
                continue
            starts += prose_starts(L, PX, alt_name)
    starts = sorted(set((a, s, ANY if f == ANY else tuple(sorted(f))) for a, s, f in starts))
    sigils = sorted({s for _, s, _ in starts})
    rep.floor(R, "sigils with which a prose element can begin (from the alternatives of the generic prose parser)", len(sigils), 8)
    rep.note("c10_r12_prose_starts", [[a, x, f if f == ANY else list(f)] for a, x, f in starts])

    def prose_conflicts(lits):
        return sorted({"%s (%s)" % (s, a) for t in lits for a, s, f in starts if conflicts(t, s, f)})

    # ---- A: formula operators
    levels = {}
    for n in sorted(P):
        sh = level_shape(L, G, n)
        if sh is not None:
            levels[n] = sh
    # a precedence CHAIN: a level whose operand is a level, or that is the operand of one (a lone `x, *(sep, x)` list is not a formula level)
    nexts = {v[0] for v in levels.values()}
    levels = {n: v for n, v in levels.items() if v[0] in levels or n in nexts}
    rep.floor(R, "precedence levels of the formula grammar (NEXT, *(OP, NEXT))", len(levels), 7)
    n_ops = 0
    ops_seen = []
    seen_keys = set()
    for lv, (nxt, op_terms, right) in sorted(levels.items()):
        # white space steps of the level function itself
        for t in L.steps(lv):
            if L.is_blank_term(t):
                rep.check(not L.crosses_line_end(t), R, "level:%s:no-line-end-in-level-blanks" % lv,
                          "%s(): the blank parser %s applied around the operands of this precedence level accepts a line end: white space after an operand is white space in "
                          "front of the next operator, so the formula continues on the following line and the prose element there (a `- item` bullet, a `> quote`, a `| table |`) "
                          "is read as its continuation" % (lv, show(t)), "%s (mech_syntax.lib)" % lv)
        paths = L.lead_paths(op_terms, owner=lv)
        for pth in paths:
            owner = site_of(L, pth)
            key = "formula-operator:%s:%s" % (lv, owner)
            if key in seen_keys:
                continue
            group = [p for p in paths if site_of(L, p) == owner]
            seen_keys.add(key)
            n_ops += 1
            if any(p[1] is None for p in group):
                rep.note("undecided", {"rule": R, "site": key, "why": "operator token is not a finite literal"})
                rep.ok(R, key)
                continue
            ops_seen.append(owner)
            toks = sorted({x for p in group for x in p[1]})
            bad = sorted({show(w) for p in group for w in p[0] if L.crosses_line_end(w)})
            cf = prose_conflicts(toks)
            rep.check(not bad, R, key,
                      "%s(), an operator of precedence level %s(): the white space %s applied between the left operand and the operator token %s accepts a line end, so a "
                      "formula at the end of a line continues with the first token of the NEXT line%s - prose below a statement changes its value" % (
                          owner, lv, ", ".join(bad), "/".join(repr(x) for x in toks),
                          (": that token also begins the prose element(s) " + ", ".join(cf[:4])) if cf else " (a paragraph can begin with any symbol)"),
                      "%s (mech_syntax.lib)" % owner,
                      sample={"level": lv, "operator": owner, "token": toks, "blanks_before_token": sorted({show(w) for p in group for w in p[0]}), "prose_elements_beginning_with_it": cf})
    rep.floor(R, "formula operators (leaves of the operator classes of the precedence levels)", n_ops, 39)

    # ---- B: statement operators (infix shape outside the formula levels)
    reach, todo = set(), list(code_parsers)
    while todo:
        n = todo.pop()
        if n in reach:
            continue
        reach.add(n)
        todo += [m for m in named_parsers(P[n], P) if m not in reach]
    prose_side = set()
    todo = [a for g in generic for a in named_parsers(P[g], P) if a not in code_parsers and "MechCode" not in (G.ret_type(a) or "")]
    n_stmt = n_cross = 0
    stmt_seen = []
    for fn in sorted(reach):
        if fn in levels:
            continue
        st = L.steps(fn)
        if not st or len(st) < 3:
            continue
        core = [(i, t) for i, t in enumerate(st) if t[0] != "la"]
        # not opened by a sigil of its own: the first mandatory step is an operand (content), not a token
        first_mand = next((t for _, t in core if not L.nullable(t)), None)
        if first_mand is None or L.classify(first_mand).kind != "CONTENT":
            continue
        opened = False
        for j, (i, t) in enumerate(core):
            if t is first_mand:
                opened = True
                continue
            if not opened or L.nullable(t):
                continue
            # a mandatory step after the operand: is it a padded token followed by a mandatory operand?
            later = [u for _, u in core[j + 1:] if not L.nullable(u)]
            if not later or L.classify(later[0]).kind != "CONTENT":
                break
            paths = L.lead_paths([t], owner=fn)
            if not paths or any(p[1] is None or not all(x.strip() for x in p[1]) for p in paths):
                break
            if not any(p[0] for p in paths):
                break            # a bare token: no white space of its own in front of it
            n_stmt += 1
            for owner in sorted({site_of(L, p) for p in paths}):
                group = [p for p in paths if site_of(L, p) == owner]
                stmt_seen.append("%s:%s" % (fn, owner))
                toks = sorted({x for p in group for x in p[1]})
                cross = sorted({show(w) for p in group for w in p[0] if L.crosses_line_end(w)})
                key = "statement-operator:%s:%s" % (fn, owner)
                if not cross:
                    rep.ok(R, key, sample={"statement": fn, "operator": owner, "token": toks, "blanks_before_token": sorted({show(w) for p in group for w in p[0]}), "accept_line_end": False})
                    continue
                n_cross += 1
                cf = prose_conflicts(toks)
                rep.check(not cf, R, key,
                          "%s(), the operator of %s(): the white space %s in front of the token %s accepts a line end AND that token can begin the prose element(s) %s: the "
                          "statement continues into the prose line below it" % (owner, fn, ", ".join(cross), "/".join(repr(x) for x in toks), ", ".join(cf[:4])),
                          "%s (mech_syntax.lib)" % owner,
                          sample={"statement": fn, "operator": owner, "token": toks, "blanks_before_token": cross, "accept_line_end": True, "prose_elements_beginning_with_it": []})
            break
    rep.floor(R, "statement-level infix operators (OPERAND .. padded token OPERAND) reachable from the code parser", n_stmt, 4)
    rep.note("c10_r12", {"prose_sigils": sigils, "levels": sorted(levels), "formula_operators": ops_seen, "statement_operators": stmt_seen, "statement_operators_accepting_line_end": n_cross})
