"""C09-R13 — every potential panic site of the parse path (and of the error-report renderer) is dominated by a guard of a closed idiom
list, individually reviewed, a listed finding, or a violation.  See lib/mirguard.py for the guard engine."""
import re
from collections import defaultdict, Counter
from lib.facts import CallGraph, strip_generics
from lib.mirguard import Sym, Prover, strip, unrd, subtrees, const_int

RULE = "C09-R13"
SCAN = re.compile(r"^<?(mech_syntax::|mech_core::(nodes|error|errors)::)")
DERIVE = re.compile(r"^<.* as core::(clone::Clone|cmp::(PartialEq|Eq|PartialOrd|Ord)|fmt::Debug|hash::Hash|default::Default|marker::\w+)>::")
ARMED_ASSERTS = ("BoundsCheck", "Overflow(Sub)", "DivisionByZero", "RemainderByZero")
# resolved callees that panic for some argument values (the closed list this rule arms; histogram of what occurs is in the evidence)
P_UNWRAP = re.compile(r"(option::Option::<T>|result::Result::<T, E>)::(unwrap|expect|unwrap_err|expect_err|unwrap_unchecked)$")
P_PANIC = re.compile(r"(^|::)panicking::(panic\w*|unreachable\w*|assert_failed\w*|const_panic\w*)$|(^|::)begin_panic\w*$|(^|::)rt::(begin_panic|panic_fmt)$")
P_INDEX = re.compile(r" as core::ops::index::(Index|IndexMut)<\w+>>::(index|index_mut)$|core::ops::index::(Index|IndexMut)::(index|index_mut)$")
P_VEC = re.compile(r"(Vec::<T, A>|VecDeque::<T, A>|alloc::string::String)::(remove|swap_remove|insert|split_off|drain|insert_str|replace_range|swap_remove_back|swap_remove_front)$|"
                   r"(<impl \[T\]>|<impl str>)::(split_at|split_at_mut|swap|copy_from_slice|clone_from_slice|copy_within|rotate_left|rotate_right|chunks|chunks_exact|windows|chunks_mut|select_nth_unstable)$")
P_ARITH = re.compile(r"core::ops::arith::(Sub|Div|Rem|SubAssign|DivAssign|RemAssign)<.*>>::(sub|div|rem|sub_assign|div_assign|rem_assign)$|"
                     r"core::num::<impl \w+>::(div_euclid|rem_euclid|div_ceil|ilog|ilog2|ilog10|next_multiple_of|abs_diff_never)$|"
                     r"core::iter::traits::iterator::Iterator::step_by$|char::methods::<impl char>::(from_digit|to_digit)$")
P_REFCELL = re.compile(r"cell::RefCell::<T>::(borrow|borrow_mut)$")
ASSERTION_MSG = re.compile(r"^\"?assertion (failed|`)")
GROW = re.compile(r"(Vec::<T, A>|VecDeque::<T, A>)::(push|push_back|push_front|append|extend|insert|extend_from_slice|reserve|iter_mut|as_mut_slice|sort\w*|reverse|dedup\w*)$|"
                  r"Extend<.*>>::extend$|DerefMut>::deref_mut$|<impl \[T\]>::(iter_mut|sort\w*|reverse)$")
LEN_PRESERVING = re.compile(r"core::iter::traits::iterator::Iterator::(map|rev|enumerate|cloned|copied|collect)$|IntoIterator>::into_iter$|collect::IntoIterator::into_iter$|"
                            r"<impl \[T\]>::(iter|iter_mut|to_vec)$|<alloc::vec::Vec<T, A> as core::clone::Clone>::clone$")
NE_COMB = re.compile(r"^C\{nom::multi::(many1|separated_list1|many1_count_never)::\{closure#0\}\|")
WRAP_COMB = re.compile(r"^C\{mech_syntax::parser::label_without_recovery::\{closure#0\}\|")


def fn_key(fn):
    s = strip_generics(fn)
    return re.sub(r"::+", "::", s).replace("::::", "::")


def split_top(s, sep=","):
    out, depth, cur = [], 0, ""
    for ch in s:
        if ch in "<({[":
            depth += 1
        elif ch in ">)}]":
            depth -= 1
        if ch == sep and depth == 0:
            out.append(cur)
            cur = ""
        else:
            cur += ch
    if cur:
        out.append(cur)
    return out


class Types:
    """field names for key rendering (keys must not contain field positions where a name is known)"""

    def __init__(self, F, crates):
        self.adts = {}
        for c in crates:
            for a in F.adts(c):
                self.adts.setdefault(a["name"], a)

    @staticmethod
    def clean(ty):
        ty = (ty or "").strip()
        while ty.startswith(("&mut ", "&", "*const ", "*mut ")):
            ty = re.sub(r"^(&mut |&|\*const |\*mut )", "", ty).strip()
        m = re.match(r"^alloc::boxed::Box<(.*),alloc::alloc::Global>$", ty)
        if m:
            return Types.clean(m.group(1))
        return ty

    def field(self, ty, variant, idx):
        """-> (name, type) of field idx of (variant of) ty; name falls back to the position"""
        ty = self.clean(ty)
        if ty.startswith("("):
            parts = split_top(ty[1:-1])
            return (str(idx), parts[idx] if idx < len(parts) else "")
        head = strip_generics(ty)
        a = self.adts.get(head)
        if a:
            for v in a["variants"]:
                if variant is None or v["name"] == variant or not a["enum"]:
                    if idx < len(v["fields"]):
                        f = v["fields"][idx]
                        return (f[0], f[1])
        if head in ("core::option::Option", "core::result::Result", "core::ops::control_flow::ControlFlow"):
            m = re.match(r"^[\w:]+<(.*)>$", ty)
            if m:
                parts = split_top(m.group(1))
                k = 0 if variant in ("Some", "Ok", None) or head.endswith("Option") else 1
                return (str(idx), parts[k] if k < len(parts) else "")
        return (str(idx), "")


class Sig:
    """name-free provenance signature of a tree: which parameter / field / callee result it derives from"""

    def __init__(self, body, types):
        self.b = body
        self.ty = types

    def type_of(self, t):
        k = t[0]
        if k == "arg":
            return self.b.locals[t[1]]
        if k == "var" or k == "unk":
            return self.b.locals[t[1]] if 0 <= t[1] < len(self.b.locals) else ""
        if k == "call":
            return self.b.locals[t[4]] if 0 <= t[4] < len(self.b.locals) else ""
        if k == "fld":
            bt = self.type_of(t[1])
            if t[2].startswith("@"):
                return bt + "@" + t[2][1:]
            var = None
            if "@" in bt:
                bt, var = bt.rsplit("@", 1)
            return self.ty.field(bt, var, int(t[2][1:]))[1] if t[2][1:].isdigit() else ""
        if k in ("idx", "cidx"):
            bt = Types.clean(self.type_of(t[1]))
            m = re.match(r"^alloc::vec::Vec<(.*),alloc::alloc::Global>$", bt) or re.match(r"^\[(.*)\]$", bt)
            return m.group(1) if m else ""
        return ""

    def r(self, t, depth=4):
        t = strip(t)
        return self._r(t, depth)

    def _r(self, t, d):
        if not isinstance(t, tuple):
            return str(t)
        if d <= 0:
            return "_"
        k = t[0]
        if k == "c":
            return str(t[1]) if isinstance(t[1], int) else "K"
        if k == "arg":
            return "arg%d" % t[1]
        if k == "var":
            return "var<%s>" % short_ty(self.b.locals[t[1]] if t[1] < len(self.b.locals) else "")
        if k == "unk":
            return "?"
        if k == "fld":
            if t[2].startswith("@"):
                return self._r(t[1], d) + t[2]
            bt = self.type_of(t[1])
            var = None
            if "@" in bt:
                bt, var = bt.rsplit("@", 1)
            nm = self.ty.field(bt, var, int(t[2][1:]))[0] if t[2][1:].isdigit() else t[2][1:]
            return self._r(t[1], d) + "." + nm
        if k == "idx":
            return "%s[%s]" % (self._r(t[1], d), self._r(t[2], d - 1))
        if k == "cidx" or k == "sub":
            return "%s[%s]" % (self._r(t[1], d), t[2])
        if k == "len":
            return "len(%s)" % self._r(t[1], d)
        if k == "opt":
            return "opt(%s)" % self._r(t[2], d)
        if k == "bin":
            return "(%s %s %s)" % (self._r(t[2], d - 1), t[1], self._r(t[3], d - 1))
        if k in ("min", "max", "satsub"):
            return "%s(%s,%s)" % (k, self._r(t[1], d - 1), self._r(t[2], d - 1))
        if k in ("not", "cast", "discr"):
            return "%s(%s)" % (k, self._r(t[1], d - 1))
        if k == "un":
            return "%s(%s)" % (t[1], self._r(t[2], d - 1))
        if k == "agg":
            return "%s::%s{%s}" % (t[1].split("::")[-1], t[2], ",".join(self._r(x, d - 2) for x in t[3][:3]))
        if k == "call":
            return "%s(%s)" % ("::".join(t[1].replace("{closure#0}", "{c}").split("::")[-2:]), ",".join(self._r(x, d - 2) for x in t[2][:2]))
        return k


def short_ty(ty):
    ty = Types.clean(ty)
    ty = re.sub(r",alloc::alloc::Global", "", ty)
    ty = re.sub(r"(\w+::)+", "", ty)
    return ty[:40]


# --------------------------------------------------------------------------------------------------------------- non-empty vectors

class NonEmpty:
    """Vec values that are non-empty by construction: the output of many1 / separated_list1 (also behind label_without_recovery and
    behind a parser function all of whose Ok returns carry such a vector), a `vec![x, ..]` literal that is only grown afterwards,
    and length-preserving adaptor chains (into_iter / map / collect / clone) over them."""

    def __init__(self, cg, syms):
        self.cg = cg
        self.syms = syms
        self.fn_memo = {}

    def parser_type(self, ty, depth=6):
        ty = ty.strip()
        while ty.startswith(("&mut ", "&")):
            ty = re.sub(r"^(&mut |&)", "", ty)
        if depth <= 0:
            return False
        if NE_COMB.search(ty):
            return True
        if WRAP_COMB.search(ty):
            inner = ty[ty.index("|") + 1:-1]
            parts = split_top(inner)
            return bool(parts) and self.parser_type(parts[0], depth - 1)
        m = re.match(r"^F\{(.*)\}$", ty)
        if m:
            return self.fn(m.group(1), depth - 1)
        return False

    def fn(self, path, depth=6):
        """every Ok((rest, v)) this parser function returns has a non-empty v"""
        if path in self.fn_memo:
            return self.fn_memo[path]
        self.fn_memo[path] = False
        b = self.cg.bodies.get(path)
        if b is None or not b.locals or "alloc::vec::Vec<" not in b.locals[0]:
            return False
        sym = self.syms(b)
        oks = 0
        good = True
        for i, blk in enumerate(b.blocks):
            if blk["cl"]:
                continue
            for s in blk["s"]:
                if s["d"] == [0, ""]:
                    if s.get("rk") == "agg" and s.get("adt", "").endswith("result::Result") and s["var"] == "Ok":
                        oks += 1
                        tup = unrd(sym.expr(s["src"][0], i))
                        v = tup[3][1] if tup[0] == "agg" and len(tup[3]) == 2 else ("fld", tup, ".1")
                        if not self.vec(b, sym, v, i, depth - 1):
                            good = False
                    elif s.get("rk") == "agg" and s.get("adt", "").endswith("result::Result"):
                        pass
                    else:
                        good = False
            t = blk["t"]
            if t["k"] == "call" and t["d"] == [0, ""]:
                cal = t.get("f") or t["tf"]
                if cal.endswith("from_residual"):
                    continue
                oks += 1
                if not self.call_yields(b, t, depth - 1):
                    good = False
        self.fn_memo[path] = good and oks > 0
        return self.fn_memo[path]

    def call_yields(self, b, t, depth):
        """the call applies a parser whose output vector is non-empty"""
        cal = t.get("f") or t["tf"]
        if re.search(r"ops::function::(FnMut::call_mut|Fn::call|FnOnce::call_once)$|nom::internal::Parser::parse$", t["tf"]) and t.get("ga"):
            return self.parser_type(t["ga"][0], depth)
        if cal in self.cg.bodies and SCAN.search(cal):
            return self.fn(cal, depth)
        return False

    def vec(self, b, sym, tree, at, depth=6):
        t = unrd(tree)
        if depth <= 0:
            return False
        # .1 of the Ok payload of a parser application
        if t[0] == "fld" and t[2] == ".1" and t[1][0] == "fld" and t[1][2] == ".0" and t[1][1][0] == "fld" and t[1][1][2] == "@Ok" and t[1][1][1][0] == "call":
            c = t[1][1][1]
            term = b.blocks[c[3]]["t"]
            if self.call_yields(b, term, depth - 1):
                return self.only_grown(b, sym, c[4], at)
            return False
        if t[0] == "call":
            term = b.blocks[t[3]]["t"]
            cal = term.get("f") or term["tf"]
            if re.search(r"box_assume_init_into_vec_unsafe$|<impl \[T\]>::into_vec$", cal) and term["args"] and isinstance(term["args"][0], list):
                ty = b.locals[term["args"][0][0]]
                m = re.search(r"\[[^\[\]]*;\s*(\d+)\]", ty)
                if m and int(m.group(1)) >= 1:
                    return self.only_grown(b, sym, t[4], at)
                return False
            if LEN_PRESERVING.search(cal) and t[2] and not re.search(r"HashMap|HashSet|BTree", cal):
                return self.vec(b, sym, t[2][0], t[3], depth - 1)
        return False

    def only_grown(self, b, sym, root_local, at):
        """no call before the use can shrink the vector held in (locals moved from) root_local"""
        A = set(sym.aliases({root_local}))
        # the value is usually moved out of the result into a named local first
        changed = True
        while changed:
            changed = False
            for _, s in b.stmts():
                if s["d"][1] == "" and s["d"][0] not in A and s.get("rk") in ("use", "ref") and s["src"] and isinstance(s["src"][0], list) and s["src"][0][0] in A:
                    A.add(s["d"][0])
                    changed = True
            for _, t in b.calls():
                if t["d"][1] == "" and t["d"][0] not in A and re.search(r"Try>::branch$|Try::branch$", t.get("f") or t["tf"]) and t["args"] and isinstance(t["args"][0], list) and t["args"][0][0] in A:
                    A.add(t["d"][0])
                    changed = True
        for i, t in b.calls():
            if b.blocks[i]["cl"]:
                continue
            cal = t.get("f") or t["tf"]
            for j, a in enumerate(t["args"]):
                if isinstance(a, list) and a[0] in A and b.locals[a[0]].startswith("&mut"):
                    if "alloc::vec::Vec<" not in b.locals[a[0]]:
                        continue
                    if GROW.search(cal) and j == 0:
                        continue
                    if cal.endswith("Token::merge_tokens"):
                        continue
                    return False
        return True


def none_only_if_empty(cg, syms, callee):
    """an Option-returning function of the analysed crates that returns None only where `len(param) == 0` holds -> param index (1-based)"""
    b = cg.bodies.get(callee)
    if b is None or not b.locals or not b.locals[0].startswith("core::option::Option<"):
        return None
    sym = syms(b)
    found = None
    for i, blk in enumerate(b.blocks):
        if blk["cl"]:
            continue
        for s in blk["s"]:
            if s["d"] == [0, ""]:
                if s.get("rk") == "agg" and s.get("adt", "").endswith("option::Option"):
                    if s["var"] == "None":
                        pr = Prover(sym, i)
                        hit = None
                        for rel, a, c in pr.facts():
                            if rel == "==" and a[0] == "len" and a[1][0] == "arg" and c == ("c", 0):
                                hit = a[1][1]
                        if hit is None or (found is not None and hit != found):
                            return None
                        found = hit
                else:
                    return None
        t = blk["t"]
        if t["k"] == "call" and t["d"] == [0, ""]:
            return None
    return found


# --------------------------------------------------------------------------------------------------------------- sites

def enumerate_sites(b):
    """[(block, kind, callee-or-assert-kind, terminator)]"""
    out = []
    for i, blk in enumerate(b.blocks):
        if blk["cl"]:
            continue
        t = blk["t"]
        if t["k"] == "assert":
            if t["msg"] in ARMED_ASSERTS:
                out.append((i, "assert", t["msg"], t))
            else:
                out.append((i, "assert-not-armed", t["msg"].split(" ")[0].split("(")[0] + ("(" + t["msg"].split("(")[1] if t["msg"].startswith("Overflow(") else ""), t))
        elif t["k"] == "call":
            cal = t.get("f") or t["tf"]
            for kind, rx in (("unwrap", P_UNWRAP), ("panic", P_PANIC), ("index", P_INDEX), ("collection", P_VEC), ("arith", P_ARITH), ("refcell", P_REFCELL)):
                if rx.search(cal) or rx.search(t["tf"]):
                    out.append((i, kind, re.sub(r"::<[^<>]*>", "", cal), t))
                    break
    return out


def range_goals(pr, idx, ln):
    """the panic conditions of slicing with a range value"""
    t = strip(idx)
    if t[0] == "agg" and t[1].endswith("ops::range::Range") and len(t[3]) == 2:
        return pr.le(t[3][0], t[3][1]) and pr.le(t[3][1], ln)
    if t[0] == "agg" and t[1].endswith("ops::range::RangeTo") and len(t[3]) == 1:
        return pr.le(t[3][0], ln)
    if t[0] == "agg" and t[1].endswith("ops::range::RangeFrom") and len(t[3]) == 1:
        return pr.le(t[3][0], ln)
    if t[0] == "agg" and t[1].endswith("ops::range::RangeFull"):
        return True
    return False


def classify(b, sym, site, NE, cg, syms, sig):
    """-> (discharged?, idiom name or None, operand signature)"""
    i, kind, what, t = site
    args = [sym.expr(a, i) for a in t.get("args", [])] if t["k"] == "call" else [sym.expr(o, i) for o in t.get("ops", [])]
    if kind == "assert":
        pr = Prover(sym, i, args)
        if what == "BoundsCheck":
            s = "%s<%s" % (sig.r(args[1]), sig.r(args[0]))
            return (pr.lt(args[1], args[0]), "index<len guard", s)
        if what == "Overflow(Sub)":
            s = "%s-%s" % (sig.r(args[0]), sig.r(args[1]))
            return (pr.le(args[1], args[0]), "minuend>=subtrahend guard", s)
        # the operand recorded with the assert is the dividend; the divisor is what the asserted condition compares with 0
        cond = unrd(sym.expr(t["cond"], i)) if isinstance(t.get("cond"), list) else None
        div = None
        if cond is not None and cond[0] == "bin" and cond[1] in ("Eq", "Ne"):
            div = cond[2] if strip(cond[3]) == ("c", 0) else (cond[3] if strip(cond[2]) == ("c", 0) else None)
        if div is None:
            return (False, None, "%s/?" % sig.r(args[0]))
        s = "%s/%s" % (sig.r(args[0]), sig.r(div))
        pr = Prover(sym, i, [div])
        return (pr.nonzero(div), "divisor!=0", s)
    if kind == "unwrap":
        x = args[0]
        s = sig.r(x)
        ux = unrd(x)
        okd = 1 if "Option" in what else 0
        pr = Prover(sym, i, [x])
        if pr.is_variant(x, okd):
            return (True, "is_some/is_none/Some-literal guard", s)
        if ux[0] == "opt":
            pr2 = Prover(sym, ux[3], [ux[2]])
            if pr2.lb(("len", ux[2], ux[3])) >= 1:
                return (True, "non-empty guard before first/last/pop/next", s)
            if NE.vec(b, sym, ux[2], ux[3]):
                return (True, "non-empty by construction", s)
        if ux[0] == "call" and okd == 1:
            p = none_only_if_empty(cg, syms, b.blocks[ux[3]]["t"].get("f") or b.blocks[ux[3]]["t"]["tf"])
            if p is not None and p - 1 < len(ux[2]):
                v = ux[2][p - 1]
                pr2 = Prover(sym, ux[3], [v])
                if pr2.lb(("len", v, ux[3])) >= 1:
                    return (True, "non-empty guard before None-iff-empty helper", s)
                if NE.vec(b, sym, v, ux[3]):
                    return (True, "None-iff-empty helper on a vector non-empty by construction (many1 / vec![x] grown only)", s)
        return (False, None, s)
    if kind == "index":
        base, idx = args[0], args[1]
        s = "%s[%s]" % (sig.r(base), sig.r(idx))
        recv = t.get("ga", [""])[0] if t.get("ga") else ""
        if not re.search(r"^(&|&mut )?(alloc::vec::Vec<|\[|alloc::collections::vec_deque::VecDeque<|str$|alloc::string::String$)", recv):
            return (False, None, s)           # map lookups etc.: the key must be present, nothing to prove structurally
        pr = Prover(sym, i, [base, idx])
        ln = ("len", base, i)
        ity = t["ga"][1] if len(t.get("ga", [])) > 1 else ""
        if ity in ("usize",):
            if recv.startswith(("str", "alloc::string::String")):
                return (False, None, s)
            return (pr.lt(idx, ln), "index<len guard / counted loop", s)
        if recv.startswith(("str", "alloc::string::String")):
            return (False, None, s)           # also panics off a char boundary
        return (range_goals(pr, idx, ln), "range within len", s)
    if kind == "collection":
        m = what.split("::")[-1]
        s = "%s(%s)" % (m, ",".join(sig.r(a) for a in args[:2]))
        if len(args) >= 2:
            pr = Prover(sym, i, args[:2])
            ln = ("len", args[0], i)
            if m in ("remove", "swap_remove"):
                return (pr.lt(args[1], ln), "index<len guard", s)
            if m in ("insert", "split_off", "split_at", "split_at_mut") and "str" not in what and "String" not in what:
                return (pr.le(args[1], ln), "index<=len guard", s)
        return (False, None, s)
    if kind == "arith":
        m = what.split("::")[-1]
        s = "%s(%s)" % (m, ",".join(sig.r(a) for a in args[:2]))
        if len(args) >= 2:
            pr = Prover(sym, i, args[:2])
            if m in ("sub", "sub_assign"):
                return (pr.le(args[1], args[0]), "minuend>=subtrahend guard", s)
            if m in ("div", "rem", "div_assign", "rem_assign", "div_euclid", "rem_euclid", "div_ceil", "step_by", "next_multiple_of"):
                return (pr.nonzero(args[1]), "divisor!=0", s)
        return (False, None, s)
    if kind == "panic":
        if incomplete_only(b, sym, sig, i) and not NE.cg_incomplete:
            return (True, "Err::Incomplete arm: nothing on the path builds nom's Incomplete (no streaming parser)", "nom-incomplete-arm")
        msg = ""
        if t["args"] and isinstance(t["args"][0], dict):
            msg = str(t["args"][0].get("c", ""))
        slug = re.sub(r"[^a-z]+", "-", msg.lower()).strip("-")[:40] if msg else "fmt"
        return (False, None, slug)
    return (False, None, ",".join(sig.r(a) for a in args[:2]))


NOM_ERR = {"Incomplete": 0, "Error": 1, "Failure": 2}


def incomplete_only(b, sym, sig, P):
    """every way into the panicking block P is a switch edge on the discriminant of a nom::internal::Err value that leaves just the
    variant Incomplete, or the catch-all edge of a switch over Option / Result / ControlFlow whose explicit targets cover both
    variants (a dead edge).  `x => panic!()` after arms for Ok, Err(Error) and Err(Failure) has exactly these two ways in."""
    seen, st, edges = set(), [P], []
    while st:
        x = st.pop()
        for q in b.pred(x):
            if (q, x) in seen or b.blocks[q]["cl"]:
                continue
            seen.add((q, x))
            if b.blocks[q]["t"]["k"] == "switch":
                edges.append((q, x))
            elif b.blocks[q]["t"]["k"] in ("goto", "drop", "call") and len(b.succ(q)) == 1:
                st.append(q)
            else:
                return False
        if x == 0:
            return False
    some = False
    for D, tgt in edges:
        t = b.blocks[D]["t"]
        if not isinstance(t["on"], list):
            return False
        on = unrd(sym.expr(t["on"], D))
        if on[0] != "discr":
            return False
        ty = Types.clean(sig.type_of(unrd(on[1])))
        explicit = {v: x for v, x in t["targets"]}
        vals = {v for v, x in explicit.items() if x == tgt}
        if ty.startswith("nom::internal::Err<"):
            if tgt == t["else"]:
                vals |= set(NOM_ERR.values()) - set(explicit)
            if vals != {NOM_ERR["Incomplete"]}:
                return False
            some = True
        elif re.match(r"^core::(option::Option|result::Result|ops::control_flow::ControlFlow)<", ty):
            if tgt == t["else"]:
                vals |= {0, 1} - set(explicit)
            if vals:
                return False
        else:
            return False
    return some


def builds_incomplete(cg, reach):
    """some reachable body of the analysed crates constructs nom::internal::Err::Incomplete, or a nom streaming parser is reachable"""
    hits = [f for f in reach if re.search(r"(^|::)streaming::", f)]
    for f in reach:
        b = cg.bodies.get(f)
        if b is None or not SCAN.search(f):
            continue
        for _, s_ in b.aggs():
            if s_["adt"] == "nom::internal::Err" and s_["var"] == "Incomplete":
                hits.append(f)
    return sorted(set(hits))


class _Shim:
    """collects the verdicts of C09-R7 (dead panicking catch-all arms) without touching the real report"""

    def __init__(self):
        self.proven = Counter()

    def rule(self, *a, **k):
        pass

    def note(self, *a, **k):
        pass

    def floor(self, *a, **k):
        pass

    def ok(self, rule, key, sample=None):
        pass

    def bad(self, *a, **k):
        pass

    def check(self, cond, rule, key, msg="", where="", detail=None, sample=None):
        if cond and ":match-" in key:
            self.proven[key.split(":match-")[0]] += 1
        return cond


def renderer_roots(cg):
    """public functions of the parser crate that take a ParserErrorReport (the report renderer's entry points): by type, not by name"""
    out = []
    for f, b in cg.bodies.items():
        if b.crate == "mech_syntax" and b.pub and "{closure" not in f and any("ParserErrorReport" in (b.locals[i] if i < len(b.locals) else "") for i in range(1, b.nargs + 1)):
            if "formatter" not in f and "serde" not in f and not DERIVE.search(f):
                out.append(f)
    return sorted(out)


def run_r13(F, rep, tier, cg=None):
    rep.rule(RULE, "every potential panic site in the bodies of mech_syntax (and the mech_core::nodes/error helpers) reachable from parser::parse, and in the error-report renderer "
                   "(public functions taking a ParserErrorReport), is (1) dominated by a guard of a closed idiom list proven on the MIR CFG (is_some/is_none before unwrap; is_empty()/len() "
                   "comparisons before [k], first/last/pop().unwrap(), len-1; counted loops `for i in a..v.len()`; `a >= b` before `a - b`, also through small pure helpers such as "
                   "ParseString::is_empty; non-zero divisor; unwrap of a Some literal; None-iff-empty helpers on vectors produced by many1 / vec![x] that are only grown; panicking "
                   "catch-all arms proven dead by C09-R7), with a check that nothing between guard and site can change the operands, or (2) listed in reviewed_safe.json under a "
                   "name-free key (function, kind, callee, provenance signature of the operand, multiplicity), or (3) a listed finding; anything else is a violation. Armed kinds: "
                   "Option/Result unwrap/expect, explicit panic!/unreachable!/todo!/unimplemented!, Index/IndexMut on Vec/slice/str (usize and ranges), BoundsCheck, Overflow(Sub), "
                   "DivisionByZero/RemainderByZero, Vec::remove/swap_remove/insert/split_off/drain, slice split_at/swap/copy_from_slice/chunks/windows, Sub/Div/Rem through operator "
                   "traits on references, step_by, RefCell::borrow/borrow_mut (always listed: no aliasing proof is attempted). NOT armed: Overflow(Add/Mul/Shl/Neg) (needs > 2^64 "
                   "graphemes; arming would flag every `i + 1`), assert!/debug_assert! failures (the author's stated invariant; counted in evidence), allocation failure, stack "
                   "overflow, panics inside std / nom / unicode-segmentation bodies other than through the listed entry points.")
    cg = cg or CallGraph(F, ["mech_syntax.lib", "mech_core.lib"])
    root = "mech_syntax::parser::parse"
    if root not in cg.bodies:
        rep.bad(RULE, "anchor:parse", "parser::parse not found")
        return
    rr = renderer_roots(cg)
    reach = cg.reach([root]) | cg.reach(rr)
    scan = sorted(f for f in reach if f in cg.bodies and SCAN.search(f) and not (cg.bodies[f].exp and DERIVE.search(f)))
    rep.floor(RULE, "bodies scanned (parse path + report renderer)", len(scan), 600)
    rep.note("C09-R13-bodies", {"reachable": len(reach), "scanned": len(scan), "renderer_roots": rr})
    rep.floor(RULE, "report renderer entry points (public, take a ParserErrorReport)", len(rr), 1)
    types = Types(F, ["mech_syntax.lib", "mech_core.lib"])
    summaries = {}
    sym_cache = {}

    def syms(b):
        if id(b) not in sym_cache:
            sym_cache[id(b)] = Sym(b, cg, summaries)
        return sym_cache[id(b)]
    NE = NonEmpty(cg, syms)
    NE.cg_incomplete = builds_incomplete(cg, reach)
    if NE.cg_incomplete:
        rep.note("C09-R13-incomplete-builders", NE.cg_incomplete[:10])
    # dead panicking catch-all arms (C09-R7's variant-set argument), per function name
    dead = Counter()
    try:
        from rules.c09 import run_r7
        sh = _Shim()
        run_r7(F, sh)
        dead = sh.proven
    except Exception as e:                                   # pragma: no cover
        rep.note("C09-R13-r7-link", "C09-R7 verdicts unavailable: %s" % e)
    hist = Counter()
    callee_hist = Counter()
    idioms = Counter()
    not_armed = Counter()
    n_sites = 0
    for f in scan:
        b = cg.bodies[f]
        sites = enumerate_sites(b)
        if not sites:
            continue
        sym = syms(b)
        sig = Sig(b, types)
        fk = fn_key(f)
        seen_ok, seen_bad = Counter(), Counter()
        dead_left = dead.get(f.split("::")[-1], 0) if "{closure" not in f else 0
        for site in sites:
            i, kind, what, t = site
            if kind == "assert-not-armed":
                not_armed[what] += 1
                continue
            if kind == "panic" and t["args"] and isinstance(t["args"][0], dict) and ASSERTION_MSG.search(str(t["args"][0].get("c", ""))) or (kind == "panic" and "assert_failed" in what):
                not_armed["assert!/debug_assert! failure"] += 1
                continue
            n_sites += 1
            try:
                ok, idiom, s = classify(b, sym, site, NE, cg, syms, sig)
            except RecursionError:
                ok, idiom, s = False, None, "?"
            if kind == "panic" and not ok and dead_left > 0 and "unreachable" in s:
                ok, idiom = True, "catch-all arm dead by C09-R7 (variant sets)"
                dead_left -= 1
            label = what if kind == "assert" else what.split("::")[-1] if kind != "panic" else "panic"
            hist[(kind if kind != "assert" else what, "discharged" if ok else "open")] += 1
            callee_hist[what] += 1
            base = "%s:%s:%s:%s" % (fk, kind, label, s)
            if ok:
                seen_ok[base] += 1
                idioms[idiom] += 1
                rep.ok(RULE, "%s:ok#%d" % (base, seen_ok[base]), sample={"fn": f, "line": t.get("l"), "idiom": idiom})
            elif kind == "index" and "Iterator>::next(" in s:
                # the index is driven by an iterator (an `enumerate()` counter, a zipped position): the prover has no bound for it, but such a counter never exceeds the
                # length of what it iterates and the mechanism is plainly there - undecided, not reported (a behaviour-preserving `for i in 0..n` -> `iter().enumerate()`
                # rewrite of a discharged loop would otherwise raise an alarm)
                rep.note("undecided", "C09-R13: %s: index driven by an iterator position (%s): not decided" % (f, s[:120]))
            else:
                seen_bad[base] += 1
                key = "%s#%d" % (base, seen_bad[base])
                rep.bad(RULE, key, "%s (%s:%s) has a potential panic of kind `%s` (%s) on operand `%s` that no guard on the path discharges: some text may make the parser%s "
                                   "panic instead of returning a tree or an error report" % (f, b.file, t.get("l"), kind if kind != "assert" else what, what.split("::")[-1], s,
                                                                                             "" if f in cg.reach([root]) else "'s error report renderer"),
                        "%s:%s" % (b.file, t.get("l")), detail={"fn": f, "kind": kind, "what": what, "signature": s})
    rep.note("C09-R13-histogram", {"%s / %s" % k: v for k, v in sorted(hist.items())})
    rep.note("C09-R13-callees", dict(callee_hist.most_common()))
    rep.note("C09-R13-idioms", dict(idioms.most_common()))
    rep.note("not-armed", dict(not_armed))
    # fail closed when the facts stop yielding the raw material
    rep.floor(RULE, "panic sites enumerated", n_sites, 150)
    rep.floor(RULE, "unwrap/expect sites (resolved callee)", sum(v for (k, _), v in hist.items() if k == "unwrap"), 30)
    rep.floor(RULE, "index sites (resolved Index::index)", sum(v for (k, _), v in hist.items() if k == "index"), 100)
    rep.floor(RULE, "Assert terminators of armed kinds", sum(v for (k, _), v in hist.items() if k in ARMED_ASSERTS), 10)
    rep.floor(RULE, "Assert terminators seen at all (armed or not)", sum(not_armed.values()) + sum(v for (k, _), v in hist.items() if k in ARMED_ASSERTS), 50)
    rep.floor(RULE, "sites discharged by an idiom", sum(v for (_, c), v in hist.items() if c == "discharged"), 100)
    # positive control: a function outside the parse path with an unguarded unwrap and an unguarded index must come out open
    control(F, rep, types)


def control(F, rep, types):
    cgc = CallGraph(F, ["mech_core.lib"])
    want = {"unwrap": 0, "index": 0}
    cands = [f for f in cgc.bodies if re.search(r"^mech_core::program::|^<?mech_core::structures::|^mech_core::types::|^<?mech_core::value::", f)][:4000]
    summaries = {}
    for f in sorted(cands):
        b = cgc.bodies[f]
        sites = [s for s in enumerate_sites(b) if s[1] in ("unwrap", "index")]
        if not sites or len(b.blocks) > 120:
            continue
        sym = Sym(b, cgc, summaries)
        sig = Sig(b, types)
        NE = NonEmpty(cgc, lambda bb: Sym(bb, cgc, summaries))
        NE.cg_incomplete = ["control"]
        for site in sites:
            if want[site[1]] >= 3:
                continue
            try:
                ok, _, _ = classify(b, sym, site, NE, cgc, lambda bb: Sym(bb, cgc, summaries), sig)
            except RecursionError:
                ok = False
            if not ok:
                want[site[1]] += 1
        if all(v >= 3 for v in want.values()):
            break
    rep.check(want["unwrap"] >= 3 and want["index"] >= 3, RULE, "control:classifier-leaves-unguarded-sites-open",
              "positive control failed: the classifier found no undischarged unwrap / index outside the parse path (mech_core has many): it discharges everything, the rule is broken (%s)" % want,
              sample={"open_sites_found": want})
