"""C19-R8: identity operations of values do not depend on the iteration order of a std hash collection.

`Hash`, `PartialOrd`, `Ord` and `Display` impls of the value types decide which elements of a set are "the same", which key of a map is hit and what a
variable prints as.  std's HashMap / HashSet iterate in an order that differs per instance (RandomState): a hasher fed in that order gives two equal records different
hashes, so the same program builds sets of different size in two interpreters - the determinism clause of C19 (and the distinctness clause of C14) fails with no assignment
in sight.  Structural fact decided on the MIR: no body of such an impl in mech_core (found by trait, for every self type) - nor a closure it owns - calls an iteration
method of a std hash collection (iter / keys / values / into_iter / drain ...).  Order-insensitive uses (`get`, `contains_key`, `len`) are not iteration and are not judged.
A positive control (the same detector over all of mech_core must find the hash iterations that exist elsewhere) proves the detector fires."""
import re

HASH_ITER = re.compile(r"collections::hash::(set|map)::.*(::|>::)(into_iter|iter|iter_mut|drain|keys|values|values_mut|into_keys|into_values|retain|difference|union|intersection|symmetric_difference|extract_if)$")
# order-SENSITIVE identity operations only: a hasher is fed in iteration order, an ordering compares lexicographically, Display prints in iteration order.
# PartialEq::eq is deliberately not judged: equality over a hash collection is a conjunction / lookup by key (MechTable::eq walks its column-name map), which no order changes.
IDENT = re.compile(r" as (core|std)::(hash::Hash|cmp::PartialOrd(<[^>]*>)?|cmp::Ord|fmt::Display)>::(hash|partial_cmp|cmp|fmt)(::\{closure|$)")


def run(F, rep, crate="mech_core.lib"):
    rid = "C19-R8"
    rep.rule(rid, "order-sensitive identity operations (Hash / PartialOrd / Ord / Display impls of mech_core's value types) never iterate a std HashMap / HashSet: their result would depend on a "
                  "per-instance random order (two interpreters running the same program would hold different sets / print different text)")
    from lib.facts import CallGraph
    cg = CallGraph(F, [crate])
    n_ident = n_ctl = 0
    for name, b in sorted(cg.bodies.items()):
        sites = [(t.get("l"), (t.get("f") or t.get("tf"))) for _, t in b.calls() if HASH_ITER.search((t.get("f") or "")) or HASH_ITER.search((t.get("tf") or ""))]
        if sites:
            n_ctl += 1
        if not IDENT.search(name):
            continue
        n_ident += 1
        what = re.sub(r"^<(.*?) as .*?::(\w+)(<[^>]*>)?>::(\w+).*$", r"\1:\2::\4", name)
        rep.check(not sites, rid, "%s:iterates-hash-collection" % what if sites else "%s:order-free" % what,
                  "%s iterates a std hash collection (%s): its result depends on the per-instance iteration order, so equal values hash / compare / print differently in different "
                  "interpreters (sets of records de-duplicate differently from run to run)" % (name, sorted({s[1].split('::')[-1] for s in sites})), "%s (%s)" % (name, crate))
    rep.floor(rid, "identity-operation bodies (Hash/PartialOrd/Ord/Display impls) scanned in mech_core", n_ident, 40)
    rep.floor(rid, "positive control: bodies of mech_core that do iterate a std hash collection", n_ctl, 1)
