"""C15-R4 — the range compilers hand start, [increment,] terminal to their dispatcher in that order, in EVERY arm.

`range()` (C15-R3) passes the operands in order to `RangeExclusive / RangeInclusive / RangeIncrement*::compile`.  Each of those first tries the
dispatcher on the arguments as they are and then, in a ladder of arms over which operands are `MutableReference`s (3 operands: 7 near-identical arms),
dereferences the variable operands and tries again.  One exchanged or repeated operand in one arm - `a..s..b` evaluated as `a..a..b` when start and
step are variables and the end is not - compiles, and only that combination of operand forms shows it.

Decided with the operand-position flow analysis written for the binary operators (rules/c01.py OperandFlow, here with arity 2 or 3): positions enter
through `arguments[i]` and are inherited through lets, tuple-match components, shadowing and helpers; every dispatcher call must receive a value derived
from operand i, and from no other operand, as its i-th argument."""
import re
from lib.facts import find, path_of, render, render_pat
from rules.c01 import OperandFlow, _Scope, params_of_type, fn_resolver, anonymous_pat

CRATE = "mech_range.lib"
ROLE = {2: ("start", "end"), 3: ("start", "step", "end")}


def run_r4(F, rep):
    rep.rule("C15-R4", "operand forwarding: in every arm of every range compiler (direct attempt and each dereferencing fallback arm) the i-th argument of the dispatcher call derives "
                       "from the i-th operand and from no other (start, [step,] end) - operand-position flow from `arguments[i]` through lets, tuple-match components and helpers")
    items = F.syn(CRATE)
    resolve = fn_resolver(F, [CRATE])
    disp = {}
    for it in items:
        if it["k"] == "fn" and it.get("body") and re.match(r"^impl_range_\w+_fxn$", it["name"]):
            disp[it["name"]] = len((it.get("sig") or {}).get("inputs", []))
    n_sites = 0
    n_comp = 0
    for it in items:
        if it["k"] != "method" or it["name"] != "compile" or "NativeFunctionCompiler" not in (it.get("trait") or "") or not it.get("body"):
            continue
        owner = re.sub(r"\s", "", it["self"])
        called = {path_of(c[1]).split("::")[-1] for c in find(it["body"], "call") if path_of(c[1]) and path_of(c[1]).split("::")[-1] in disp}
        for d in sorted(called):
            ar = disp[d]
            if ar not in ROLE:
                continue
            n_comp += 1
            flow = OperandFlow(r"(^|::)%s$" % re.escape(d), resolve, arity=ar)
            sc = _Scope(vecs=params_of_type(it, r"^&?(mut)?(Vec<Value>|\[Value\])$"))
            flow.block(it["body"], sc, 0)
            per = {}
            for c, got, arm in flow.sites:
                if any("?" in g for g in got) or (arm is None and not any(got)):
                    rep.note("undecided", "%s: dispatcher call `%s`: operand provenance unknown" % (owner, render(c)[:80]))
                    continue
                n_sites += 1
                ok = all(got[i] == {i} for i in range(ar))
                armtxt = anonymous_pat(arm)[:70] if arm is not None else "direct"
                per[armtxt] = per.get(armtxt, 0) + 1
                key = "%s:%s%s" % (owner, armtxt, "#%d" % per[armtxt] if per[armtxt] > 1 else "")
                wrong = [("%s<-%s" % (ROLE[ar][i], "+".join(ROLE[ar][j] if isinstance(j, int) and j < ar else str(j) for j in sorted(got[i], key=str)) or "nothing")) for i in range(ar) if got[i] != {i}]
                rep.check(ok, "C15-R4", key + (":in-order" if ok else ":" + ",".join(wrong)),
                          "%s::compile: in the arm `%s` the dispatcher call `%s` receives %s: the range is built from the wrong operands for this combination of operand forms" % (
                              owner, render_pat(arm)[:110] if arm is not None else "(direct attempt)", render(c)[:100], ", ".join(wrong)),
                          "%s (%s)" % (owner, CRATE), sample={"compiler": owner, "arm": armtxt, "positions": [sorted(g, key=str) for g in got]})
    rep.floor("C15-R4", "range compilers with a dispatcher", n_comp, 4)
    rep.floor("C15-R4", "dispatcher calls decided in the range compilers", n_sites, 24)
