"""Scope forwarding (C15-R5, C16-R14): an evaluator that receives the local environment hands it on to every sub-evaluator.

The tree-walking interpreter threads the local scope (pattern variables of a function / match arm, comprehension generators, `:=` qualifiers) through its
evaluators as a parameter of type `Option<&Environment>`.  A sub-expression evaluated with the literal `None` instead is resolved against the global symbol
table only: a locally bound operand is then reported undefined or - worse - silently replaced by a global of the same name.  Structural fact decided here, for
every function of the interpreter crate that HAS such a parameter (found by declared type, never by name): in every call whose callee (a function of the crate,
resolved by path; all candidates of that name must agree) declares a parameter of the same type, the argument in that position is not the literal `None`.
Functions WITHOUT an environment parameter (statement-level evaluators, the document evaluator) legitimately start a chain with `None`; they are not judged.
What is decided is the forwarding of the scope, not the values found in it."""
import re
from lib.facts import walk, is_node, path_of

ENV_T = re.compile(r"^Option<&(?:'\w+ )?Environment>$")


def _norm(t):
    return re.sub(r"\s+", " ", str(t or "")).replace("& ", "&").strip()


def env_params(it):
    return [i for i, (pat, ty) in enumerate((it.get("sig") or {}).get("inputs") or []) if ENV_T.match(_norm(ty))]


def run(F, rep, rid, crate="mech_interpreter.lib", judged=None, what="evaluators"):
    """judged: predicate on the fn item selecting the callers this property owns (None = all)"""
    rep.rule(rid, "scope forwarding: an evaluator that receives the local environment (a parameter of type Option<&Environment>) never passes the literal None "
                  "in the environment position of a sub-evaluator call (the operand would be resolved against the global table only)")
    items = F.syn(crate)
    by_name = {}
    for it in items:
        if it.get("k") in ("fn", "method") and it.get("sig"):
            by_name.setdefault(it["name"], []).append(it)
    n_callers = n_sites = 0
    for it in items:
        if it.get("k") not in ("fn", "method") or not it.get("body") or not env_params(it):
            continue
        if judged is not None and not judged(it):
            continue
        n_callers += 1
        seen = {}
        for n in walk(it["body"]):
            if not is_node(n) or n[0] != "call":
                continue
            cal = path_of(n[1])
            if not cal:
                continue
            cands = by_name.get(cal.split("::")[-1]) or []
            if not cands:
                continue
            pos = None
            for c in cands:
                ps = env_params(c)
                off = 1 if (c.get("sig", {}).get("inputs") and str(c["sig"]["inputs"][0][1]).strip() in ("&self", "self", "&mut self")) else 0
                ps = [p - off for p in ps]
                if len(ps) != 1 or (pos is not None and pos != ps[0]):
                    pos = None
                    break
                pos = ps[0]
            if pos is None or pos >= len(n[2]):
                continue
            n_sites += 1
            arg = n[2][pos]
            k = seen.get(cal.split("::")[-1], 0) + 1
            seen[cal.split("::")[-1]] = k
            rep.check(path_of(arg) != "None", rid, "%s:%s#%d" % (it["name"], cal.split("::")[-1], k) if path_of(arg) == "None" else "%s:forwards-scope:%s#%d" % (it["name"], cal.split("::")[-1], k),
                      "%s() receives the local environment but evaluates a sub-expression with %s(.., None, ..): an operand bound by a pattern, a comprehension generator or a "
                      "qualifier is looked up in the global table only (undefined, or silently a global of the same name)" % (it["name"], cal.split("::")[-1]),
                      "%s (%s, line %s)" % (it["name"], crate, it.get("line")), sample={"caller": it["name"], "callee": cal})
    return n_callers, n_sites
