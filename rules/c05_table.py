"""C05-R10 / C05-R11 - what the statement evaluators do with a statement that must fail (finite behavioural tables over the MIR).

Clauses: "redefining a name, assigning to an undefined name or to an immutable one is rejected with an error" and "a statement that fails for any
reason returns an error and leaves every existing binding, and the set of defined names, exactly as before".  C05-R2 / R3 / R4 decide the SHAPE of
the mechanism (a lookup in the mutable map whose None branch errs, a `contains` test whose bound branch errs and that precedes the insertion - inline or
as a validation loop before the insertion loop, no Err exit after an insertion).  They do not decide WHAT a validation phase tests (which key, which
index range, which comparison) and they do not see a target that the binding phase silently skips.  These two rules decide exactly that, as tables:

R10 (define statements that bind SEVERAL names - today the tuple destructure):
    for every number of targets m, every arity n of the right-hand side, every way the right-hand side can hold the tuple and every target that
    may already be bound, the evaluator either returns Ok having bound EVERY target (target j to element j) and nothing else, or returns Err
    having changed nothing; it returns Err exactly when a target is already bound, when there are more targets than elements (m > n), or when the
    right-hand side is not a tuple.
R11 (statements with ONE target name: define / assign / op-assign):
    with the target name already bound (immutably / mutably) a define returns Err and changes nothing; with the target name undefined or bound
    immutably an assignment / op-assignment returns Err and changes nothing (neither the table nor the content of the immutable cell); a define of a
    free name, where the model can follow it to the end, returns Ok with exactly that name bound, mutable iff the statement says so.

The tables are computed, not run: the MIR of the dispatcher arm and of the evaluator (with every helper and closure of the mech crates they enter,
including MechTuple::get / size, SymbolTable::contains / get_mutable / insert, ProgramState::save_symbol) is evaluated by lib/mirexec.py over a model
world that is built BY TYPE from the ADT records: the statement node gets model identifiers wherever its type has an `Identifier` / `Vec<Identifier>`
(`None` for optional parts, both values for a bool flag), the evaluator re-entry points (the callees C05-R1 cuts: `expression` ...) return the model
right-hand side, the interpreter's symbol table is a model map.  Evaluators are enumerated from the arms of `statement()`.  Where a row cannot be
evaluated (a branch on a value the model does not know, an unmodelled callee that is handed mutable model state) the row is `undecided`, never a
violation.
"""
import re
from lib import mirexec as X

RULE = "C05-R10"
TEXT = ("every define statement that binds several targets is all-or-nothing over a finite table (targets m x arity n x shape of the right-hand side x "
        "already-bound target): Ok binds every target to its element, Err changes nothing, Err iff a target is bound / m > n / not a tuple")
RULE1 = "C05-R11"
TEXT1 = ("reject table of the one-target statements: define of a bound name, assignment / op-assignment to an undefined or immutable name return Err and change "
         "nothing (evaluated over the model for every state of the target name and every value of the statement's flags)")

OPAQUE_RET = re.compile(r"^(mech_core::error::MechError|mech_core::value::ValueKind|alloc::string::String|alloc::vec::Vec<mech_core::nodes::Token\b.*|mech_core::nodes::Token)$")
COMPILER_RET = re.compile(r"^core::result::Result<alloc::boxed::Box<dyn mech_core::functions::MechFunction\b")
VALUE = "mech_core::value::Value"
IDENT = "mech_core::nodes::Identifier"
SYMTAB = "mech_core::program::symbol_table::SymbolTable"
NODES = "mech_core::nodes::"
M_MAX, N_MAX = 4, 4
UNRELATED = 7                    # key of a name that is always defined (immutably) and is no target of any statement


class Ctx:
    """what every row shares: facts, bodies, ADT records, the Value model's variant / type names"""

    def __init__(self, F, cg, crates, reentry):
        self.F, self.cg, self.crates, self.reentry = F, cg, crates, reentry
        self.adts = {}
        for c in crates:
            for a in F.adts(c):
                self.adts.setdefault(a["name"], a)
        vrec = self.adts.get(VALUE)
        self.ok = vrec is not None
        self.ref_ty = self.scalar = self.tuple_struct = None
        if vrec:
            for v in vrec["variants"]:
                if v["name"] == "MutableReference" and v["fields"]:
                    self.ref_ty = X.split_type(v["fields"][0][1])[0]
                if v["name"] == "Tuple" and v["fields"]:
                    a = X.split_type(v["fields"][0][1])[1]
                    self.tuple_struct = a[0] if a else None
            sc = [v for v in vrec["variants"] if v["name"] not in ("Tuple", "MutableReference") and len(v["fields"]) == 1]
            self.scalar = sc[0]["name"] if sc else None
        self.ok = bool(self.ok and self.ref_ty and self.scalar)
        self._has_ident = {}

    def has_identifier(self, ty, depth=0):
        """does a value of node type `ty` contain (not behind an Option / Vec / Box) an Identifier within three struct levels?"""
        if ty == IDENT:
            return True
        if depth > 3 or not ty.startswith(NODES):
            return False
        if ty not in self._has_ident:
            self._has_ident[ty] = False
            r = self.adts.get(ty)
            if r is not None and not r["enum"]:
                self._has_ident[ty] = any(self.has_identifier(f[1], depth + 1) for f in r["variants"][0]["fields"])
        return self._has_ident[ty]

    def shape_of(self, node_ty):
        """(number of single Identifier leaves, number of Vec<Identifier> fields, number of bool flags) of a statement node type"""
        single = multi = flags = 0
        r = self.adts.get(node_ty)
        if r is None or r["enum"]:
            return 0, 0, 0
        for f in r["variants"][0]["fields"]:
            ty = f[1]
            if ty == IDENT:
                single += 1
            elif re.match(r"^alloc::vec::Vec<%s\b" % re.escape(IDENT), ty):
                multi += 1
            elif ty == "bool":
                flags += 1
            elif self.has_identifier(ty, 1):
                s, m, fl = self.shape_of(ty)
                single, multi, flags = single + s, multi + m, flags + fl
        return single, multi, flags


def evaluators(ctx, arms):
    """[(statement variant, fn path of its evaluator, node type)] read from the arms of statement()"""
    out = []
    for v, fn in sorted(arms.items()):
        cands = [f for f in ctx.cg.bodies if f.startswith("mech_interpreter::") and f.endswith("::" + fn)]
        if not cands:
            continue
        b = ctx.cg.bodies[sorted(cands, key=len)[0]]
        if b.nargs < 1:
            continue
        out.append((v, b.fn, b.locals[1].lstrip("&").strip()))
    return out


def dispatcher_of(ctx, variant, node_ty):
    """(fn path of the statement dispatcher, Statement ADT, variant) when the dispatcher's first parameter is an enum with a `variant(node_ty)` arm"""
    for fn, b in ctx.cg.bodies.items():
        if fn.startswith("mech_interpreter::") and fn.endswith("::statement") and b.nargs >= 1:
            st_ty = b.locals[1].lstrip("&").strip()
            r = ctx.adts.get(st_ty)
            if r is None or not r["enum"]:
                continue
            for v in r["variants"]:
                if v["name"] == variant and len(v["fields"]) == 1 and v["fields"][0][1].strip() == node_ty:
                    return fn, st_ty, variant
    return None


class Scenario:
    """one row of a table: a model world, a statement node built by type, a right-hand side, some names already bound.
    m targets (keys 1000..), `source` in tuple / variable / scalar with n elements, pre = {key: mutable} names bound before, flag = value of the node's bools"""

    def __init__(self, ctx, fn, node_ty, m, n, shape, pre, flag=False, dup=None):
        self.ctx, self.fn, self.node_ty = ctx, fn, node_ty
        self.m, self.n, self.shape, self.flag = m, n, shape, flag
        self.dup = dup                     # (i, j): target j is the same name as target i
        self.pre = dict(pre)
        self.pre.setdefault(UNRELATED, False)
        if not ctx.ok:
            raise X.Undecided("the Value model (Tuple / MutableReference variants) was not found in the ADT records")
        w = self.w = X.World(None, (), ctx.cg.bodies, hooks=self.hook, opaque_ret=OPAQUE_RET)
        w.adts = ctx.adts
        w.makers.append((re.compile(r"^%s$" % re.escape(SYMTAB)), self.make_symtab))
        w.makers.append((re.compile(r"^std::collections::hash::map::HashMap<u64,alloc::string::String\b"), lambda w_, ty: X.MapObj()))
        # a statement of the program's top level: no enclosing function scope (`environment` / any optional second symbol table is None)
        w.makers.append((re.compile(r"^core::option::Option<%s<%s>>$" % (re.escape(ctx.ref_ty or "-"), re.escape(SYMTAB))), lambda w_, ty: X.none()))
        self.payload = [X.Opaque("element#%d" % j) for j in range(n)]
        self.elements = [X.Adt(VALUE, ctx.scalar, [self.mk_ref(self.payload[j])]) for j in range(n)]
        if shape == "scalar":
            self.source = X.Adt(VALUE, ctx.scalar, [self.mk_ref(X.Opaque("scalar"))])
        else:
            tuple_value = self.tuple_value()
            self.source = tuple_value if shape == "tuple" else X.Adt(VALUE, "MutableReference", [self.mk_ref(tuple_value)])
        self.tokens = []
        self.node = self.build_node(node_ty, 0)
        self.symtab = None
        self.initial = {}

    # ---- model values
    def mk_ref(self, v):
        return X.Adt(self.ctx.ref_ty, self.ctx.ref_ty.split("::")[-1], [X.RcObj(X.CellObj(v))])

    def tuple_value(self):
        """Value::Tuple(Ref<S>) with S holding the elements in its Vec<Box<Value>> (or Vec<Value>) field, from the records"""
        s_ty = self.ctx.tuple_struct
        srec = self.ctx.adts.get(s_ty) if s_ty else None
        if srec is None or srec["enum"]:
            raise X.Undecided("no record of the tuple structure")
        sfields, lazy, found = [], {}, False
        for i, f in enumerate(srec["variants"][0]["fields"]):
            if re.match(r"^alloc::vec::Vec<alloc::boxed::Box<%s\b" % re.escape(VALUE), f[1]):
                sfields.append(X.VecObj([X.BoxObj(e) for e in self.elements]))
                found = True
            elif re.match(r"^alloc::vec::Vec<%s\b" % re.escape(VALUE), f[1]):
                sfields.append(X.VecObj(list(self.elements)))
                found = True
            else:
                sfields.append(X.UNSET)
                lazy[i] = f[1]
        if not found:
            raise X.Undecided("the tuple structure has no element vector")
        return X.Adt(VALUE, "Tuple", [self.mk_ref(X.Adt(s_ty, srec["variants"][0]["name"], sfields, lazy, self.w))])

    def ident(self):
        tk = X.Opaque("target#%d" % len(self.tokens))
        if self.dup is not None and len(self.tokens) == self.dup[1]:
            tk = self.tokens[self.dup[0]]
        self.tokens.append(tk)
        irec = self.ctx.adts.get(IDENT)
        return X.Adt(IDENT, irec["variants"][0]["name"] if irec else "Identifier", [tk])

    def build_node(self, ty, depth):
        """the statement node, by type: Identifier -> a model identifier, Vec<Identifier> -> m of them, Option<_> -> None, bool -> the row's flag,
        a node struct that holds an Identifier -> built the same way; everything else is materialised lazily (Opaque unless the world knows the type)"""
        rec = self.ctx.adts.get(ty)
        if rec is None or rec["enum"]:
            raise X.Undecided("no struct record of %s" % ty)
        fields, lazy = [], {}
        for i, f in enumerate(rec["variants"][0]["fields"]):
            fty = f[1]
            if fty == IDENT:
                fields.append(self.ident())
            elif re.match(r"^alloc::vec::Vec<%s\b" % re.escape(IDENT), fty):
                fields.append(X.VecObj([self.ident() for _ in range(self.m)]))
            elif fty == "bool":
                fields.append(bool(self.flag))
            elif fty.startswith("core::option::Option<"):
                fields.append(X.none())
            elif depth < 3 and self.ctx.has_identifier(fty, 1):
                fields.append(self.build_node(fty, depth + 1))
            else:
                fields.append(X.UNSET)
                lazy[i] = fty
        return X.Adt(ty, rec["variants"][0]["name"], fields, lazy, self.w)

    def key_of(self, j):
        if self.dup is not None and j == self.dup[1]:
            j = self.dup[0]
        return 1000 + j

    def make_symtab(self, w, ty):
        if self.symtab is not None:
            return self.symtab
        rec = w.adts[SYMTAB]
        fields, lazy = [], {}
        for i, f in enumerate(rec["variants"][0]["fields"]):
            if re.match(r"^std::collections::hash::map::HashMap<u64,%s<%s>" % (re.escape(self.ctx.ref_ty), re.escape(VALUE)), f[1]):
                d = {}
                for k, mutable in self.pre.items():
                    if f[0] == "symbols" or (f[0] == "mutable_variables" and mutable):
                        if k not in self.initial:
                            self.initial[k] = self.mk_ref(X.Adt(VALUE, self.ctx.scalar, [self.mk_ref(X.Opaque("old#%d" % k))]))
                        d[k] = self.initial[k]
                fields.append(X.MapObj(d))
            elif f[1].startswith("std::collections::hash::map::HashMap<"):
                fields.append(X.MapObj())
            else:
                fields.append(X.UNSET)
                lazy[i] = f[1]
        self.symtab = X.Adt(SYMTAB, rec["variants"][0]["name"], fields, lazy, w)
        self.symtab_fields = [f[0] for f in rec["variants"][0]["fields"]]
        return self.symtab

    def hook(self, w, name, args, t):
        if self.ctx.reentry.match(name):
            return X.ok(self.source)
        cb = w.bodies.get(name)
        if cb is not None and COMPILER_RET.match(cb.locals[0]):
            # a function compiler (`X{}.compile(&args)?`): assumed to succeed - the plan step it returns is not part of the binding; an Err exit that
            # follows an insertion is C05-R4's business, which sees it on the CFG whatever the compiler does
            return X.ok(X.Opaque("compiled function"))
        if cb is not None and cb.locals[0] == "u64" and len(args) == 1:
            # the key of a name: any crate function from an identifier (or its token) to u64
            v = X.deref(args[0])
            tk = v.fields[0] if isinstance(v, X.Adt) and v.name == IDENT and v.fields else v
            for i, t_ in enumerate(self.tokens):
                if t_ is tk:
                    return self.key_of(i)
        return X.NOT_HANDLED

    # ---- evaluation
    def run(self, dispatcher=None):
        """-> outcome in Ok / Err / a panic(..).  With `dispatcher` = (fn path of statement(), Statement ADT name, variant) the row is evaluated through the
        statement dispatcher (what its arm does with the evaluator's result is then part of the table)"""
        entry = self.fn
        first = X.Ref(X.Loc([self.node], 0))
        if dispatcher is not None:
            entry, st_ty, variant = dispatcher
            first = X.Ref(X.Loc([X.Adt(st_ty, variant, [self.node])], 0))
        b = self.w.bodies[entry]
        args = [first]
        for i in range(2, b.nargs + 1):
            ty = b.locals[i]
            if ty.startswith("&"):
                args.append(X.Ref(X.Loc([self.w.make(ty.lstrip("&").replace("mut ", "", 1).strip())], 0)))
            elif ty.startswith("core::option::Option<"):
                args.append(X.none())
            else:
                args.append(self.w.make(ty))
        self.make_symtab(self.w, SYMTAB)
        try:
            r = self.w.run(entry, args)
            if not isinstance(r, X.Adt) or r.name != "core::result::Result":
                raise X.Undecided("the evaluator's result is not a known Result")
            return r.var
        except X.Panic as e:
            return "a panic (%s)" % str(e)[:60]

    def maps(self):
        syms = self.symtab.fields[self.symtab_fields.index("symbols")].d
        muts = self.symtab.fields[self.symtab_fields.index("mutable_variables")].d if "mutable_variables" in self.symtab_fields else {}
        return syms, muts

    def state(self):
        """({target index: element index | '?'} bound by the statement, existing bindings untouched?, names defined that are no targets)"""
        syms, muts = self.maps()
        untouched = True
        for k, cell in self.initial.items():
            if syms.get(k) is not cell or find_tag(cell, "old#") != "old#%d" % k:
                untouched = False
            if self.pre.get(k) and muts.get(k) is not cell:
                untouched = False
        if {k for k in muts if k in self.initial} != {k for k, mu in self.pre.items() if mu}:
            untouched = False
        bound = {}
        for j in range(len(self.tokens)):
            k = self.key_of(j)
            if k in syms and syms[k] is not self.initial.get(k):
                tag = find_tag(syms[k], "element#")
                bound[j] = int(tag[len("element#"):]) if tag else "?"
        extra = sorted(k for k in set(syms) | set(muts) if k not in self.initial and not (1000 <= k < 1000 + len(self.tokens)))
        return bound, untouched, extra


def find_tag(v, prefix, d=0):
    """the tag of the first Opaque marker reachable through owned / shared structure (the identity of a model element survives clone, move, re-boxing)"""
    if d > 8:
        return None
    if isinstance(v, X.Opaque):
        return v.tag if v.tag.startswith(prefix) else None
    if isinstance(v, X.Adt):
        for x in v.fields:
            t = find_tag(x, prefix, d + 1)
            if t:
                return t
    if isinstance(v, (X.RcObj, X.CellObj, X.BoxObj)):
        return find_tag(v.slot[0], prefix, d + 1)
    return None


def evaluate(ctx, fn, node_ty, dispatcher, **kw):
    """-> (scenario, outcome, through the dispatcher?);  raises Undecided"""
    last = None
    for disp in ([dispatcher] if dispatcher else []) + [None]:
        sc = Scenario(ctx, fn, node_ty, **kw)
        try:
            return sc, sc.run(disp), disp is not None
        except (X.Undecided, RecursionError) as e:
            last = X.Undecided(str(e) or "recursion limit")
    raise last


# ------------------------------------------------------------------------------------------------ R10
def describe(sc, bound):
    src = {"tuple": "a %d-tuple given directly" % sc.n, "variable": "a variable holding a %d-tuple" % sc.n, "scalar": "a value that is not a tuple"}[sc.shape]
    pre = "" if bound is None else ", target %d already defined (%s)" % (bound[0] + 1, "mutable" if bound[1] else "immutable")
    return "%d target(s) := %s%s" % (sc.m, src, pre)


def dup_rows():
    for m in range(2, M_MAX + 1):
        for shape in ("tuple", "variable"):
            for dup in sorted({(0, 1), (0, m - 1), (m - 2, m - 1)}):
                yield m, m, shape, dup


def rows():
    for m in range(1, M_MAX + 1):
        for n in range(0, N_MAX + 1):
            for shape in ("tuple", "variable"):
                yield m, n, shape, None
                for j in range(m):
                    for mutable in (False, True):
                        yield m, n, shape, (j, mutable)
        yield m, 0, "scalar", None


def classify(m, n, shape, bound):
    if shape == "scalar":
        return "source-not-a-tuple"
    if bound is not None:
        return "target-already-bound"
    return "more-targets-than-elements" if m > n else "arity-fits"


WHY = {
    "source-not-a-tuple": "a destructure of something that is not a tuple must fail and leave the set of defined names unchanged",
    "target-already-bound": "redefining a name must be rejected, and the failing statement must not bind any of its other targets",
    "more-targets-than-elements": "a destructure with more targets than the tuple has elements cannot bind every target: it must fail, and a failing statement leaves the set of defined names unchanged",
    "arity-fits": "a destructure whose targets all have an element must succeed and bind every target to the element at its position",
    "same-name-twice": "a statement that names one target twice defines that name and then redefines it: redefining a name must be rejected and nothing bound",
}


def judge(cls, m, outcome, got, untouched, extra):
    """the problems of one row (empty = the row is as the clause demands)"""
    problems = []
    if cls != "arity-fits":
        if outcome != "Err":
            problems.append("returns %s" % outcome)
        if got:
            problems.append("binds target(s) %s" % ", ".join(str(j + 1) for j in sorted(got)))
    else:
        if outcome != "Ok":
            problems.append("returns %s" % outcome)
        missing = [j for j in range(m) if j not in got]
        if outcome == "Ok" and missing:
            problems.append("leaves target(s) %s unbound" % ", ".join(str(j + 1) for j in missing))
        if outcome != "Ok" and got:
            problems.append("binds target(s) %s although it does not succeed" % ", ".join(str(j + 1) for j in sorted(got)))
        wrong = [j for j in sorted(got) if got[j] != j]
        if wrong:
            problems.append("binds target(s) %s to something other than the element at the same position" % ", ".join(str(j + 1) for j in wrong))
    if not untouched:
        problems.append("changes an existing binding")
    if extra:
        problems.append("defines names that are not targets of the statement")
    return problems


EXPECT = {True: "expected: Err and no change of the symbol table", False: "expected: Ok, target j bound to element j, nothing else changed"}
CLASSES = ("arity-fits", "more-targets-than-elements", "target-already-bound", "source-not-a-tuple", "same-name-twice")


def run(F, rep, cg, arms, define, reentry, crates, assign=()):
    rep.rule(RULE, TEXT)
    rep.rule(RULE1, TEXT1)
    ctx = Ctx(F, cg, crates, reentry)
    evs = evaluators(ctx, arms)
    multi = [(v, fn, ty) for v, fn, ty in evs if v in define and ctx.shape_of(ty)[1] >= 1]
    rep.floor(RULE, "define-family evaluators that bind several targets (node type has a Vec<Identifier> field)", len(multi), 1)
    results = {}
    for variant, fn, node_ty in multi:
        short = fn.split("::")[-1]
        b = cg.bodies[fn]
        disp = dispatcher_of(ctx, variant, node_ty)
        verdict, undecided = {}, {}
        decided = through = mrows = 0
        mutable_rows = []
        for m, n, shape, bound in rows():
            cls = classify(m, n, shape, bound)
            try:
                sc, outcome, via = evaluate(ctx, fn, node_ty, disp, m=m, n=n, shape=shape, pre=({1000 + bound[0]: bound[1]} if bound else {}))
                got, untouched, extra = sc.state()
            except X.Undecided as e:
                undecided.setdefault(cls, []).append(str(e))
                continue
            decided += 1
            through += 1 if via else 0
            problems = judge(cls, m, outcome, got, untouched, extra)
            if cls == "arity-fits" and outcome == "Ok" and not ctx.shape_of(node_ty)[2]:
                # the statement has no mutability flag (its grammar has no `~`): what it binds is immutable
                mrows += 1
                mut_t = [j for j in sorted(got) if sc.key_of(j) in sc.maps()[1]]
                if mut_t:
                    mutable_rows.append("%s: target(s) %s entered in the mutable-variables map" % (describe(sc, bound), ", ".join(str(j + 1) for j in mut_t)))
            if problems:
                # the most telling row of a class first: several targets, a non-empty tuple
                verdict.setdefault(cls, []).append((-(min(m, 3) * 10 + min(n, 3)), "%s: %s (%s)" % (describe(sc, bound), "; ".join(problems), EXPECT[cls != "arity-fits"])))
        for m, n, shape, dup in dup_rows():
            cls = "same-name-twice"
            try:
                sc, outcome, via = evaluate(ctx, fn, node_ty, disp, m=m, n=n, shape=shape, pre={}, dup=dup)
                got, untouched, extra = sc.state()
            except X.Undecided as e:
                undecided.setdefault(cls, []).append(str(e))
                continue
            decided += 1
            problems = judge(cls, m, outcome, got, untouched, extra)
            if problems:
                verdict.setdefault(cls, []).append((m, "%s, target %d is the same name as target %d: %s (%s)" % (describe(sc, None), dup[1] + 1, dup[0] + 1, "; ".join(problems), EXPECT[True])))
        rep.analysed["%s:%s" % (RULE, short)] = {"rows": decided, "through_dispatcher": through, "undecided": sum(len(v) for v in undecided.values())}
        for cls in CLASSES:
            key = "%s:all-or-nothing:%s" % (short, cls)
            results.setdefault(fn, {})[cls] = "bad" if cls in verdict else "undecided" if cls in undecided else "ok"
            if cls in verdict:
                ex = [t for _, t in sorted(verdict[cls], key=lambda x: x[0])]
                rep.bad(RULE, key, "%s (evaluator of Statement::%s): %s - %s%s" % (fn, variant, WHY[cls], ex[0], " [+%d more rows of the table]" % (len(ex) - 1) if len(ex) > 1 else ""),
                        b.where(), detail={"rows": ex[:16]})
            elif cls in undecided:
                rep.note("undecided", "%s: %s: %d row(s) of the all-or-nothing table could not be evaluated over the model (%s); nothing reported for them" % (RULE, key, len(undecided[cls]), undecided[cls][0]))
            else:
                rep.ok(RULE, key, sample={"evaluator": fn, "class": cls})
        key = "%s:binds-immutably" % short
        if mutable_rows:
            rep.bad(RULE, key, "%s (evaluator of Statement::%s): the statement has no mutability flag (no `~` in its grammar), yet the names it defines are mutable - a variable defined "
                               "without `~` can then be assigned to: %s [%d of %d successful rows]" % (fn, variant, sorted(mutable_rows, key=lambda r: (not r.startswith("2 target(s) := a 2-tuple given"), r))[0], len(mutable_rows), mrows), b.where(), detail={"rows": mutable_rows[:8]})
        elif mrows:
            rep.ok(RULE, key)
        else:
            rep.note("undecided", "%s: %s: no successful row of the table could be evaluated" % (RULE, key))
    run_single(rep, ctx, evs, define, assign, results)
    return results


# ------------------------------------------------------------------------------------------------ R11
STATES = (("undefined", None), ("immutable", False), ("mutable", True))


def run_single(rep, ctx, evs, define, assign, results):
    """reject table of the statements with ONE target name"""
    single = []
    for v, fn, ty in evs:
        s, m, fl = ctx.shape_of(ty)
        if s == 1 and m == 0 and (v in define or v in assign):
            single.append((v, fn, ty, fl))
    rep.floor(RULE1, "statement evaluators with one target name (node type reaches exactly one Identifier)", len(single), 3)
    for variant, fn, node_ty, nflags in single:
        short = fn.split("::")[-1]
        b = ctx.cg.bodies[fn]
        disp = dispatcher_of(ctx, variant, node_ty)
        is_define = variant in define
        for state, mutable in STATES:
            must_fail = (state != "undefined") if is_define else (state != "mutable")
            what = ("define of a name that is %s" % ("free" if state == "undefined" else "already bound (%s)" % state)) if is_define else \
                   ("assignment to a name that is %s" % state)
            key = "%s:%s:%s" % (short, "define" if is_define else "assign", "free" if (is_define and state == "undefined") else state)
            bad, und, decided = [], [], 0
            for flag in ((False, True) if nflags else (False,)):
                try:
                    sc, outcome, via = evaluate(ctx, fn, node_ty, disp, m=0, n=0, shape="scalar", pre=({1000: mutable} if mutable is not None else {}), flag=flag)
                    got, untouched, extra = sc.state()
                    syms, muts = sc.maps()
                except X.Undecided as e:
                    und.append(str(e))
                    continue
                decided += 1
                problems = []
                fl = (" (flag %s)" % str(flag).lower()) if nflags else ""
                if must_fail:
                    if outcome != "Err":
                        problems.append("returns %s" % outcome)
                    if got:
                        problems.append("rebinds the name")
                    if not untouched:
                        problems.append("changes an existing binding")
                elif is_define:
                    if outcome != "Ok":
                        problems.append("returns %s" % outcome)
                    elif 0 not in got:
                        problems.append("returns Ok without binding the name")
                    elif nflags == 1 and ((1000 in muts) != bool(flag)):
                        problems.append("binds the name %s although the statement says %s" % ("mutably" if 1000 in muts else "immutably", "mutable" if flag else "immutable"))
                    if not untouched:
                        problems.append("changes an existing binding")
                else:
                    # assignment to a mutable name: may succeed; the table (set of names) must stay as it is
                    if got or extra:
                        problems.append("creates or replaces a binding")
                if extra and "creates or replaces a binding" not in problems:
                    problems.append("defines names that are not targets of the statement")
                if problems:
                    bad.append("%s%s: %s" % (what, fl, "; ".join(problems)))
            if state == "mutable" and not is_define:
                # nothing is demanded of a legitimate assignment beyond what R1 decides; rows the model can follow are checked, the others are not counted
                if bad:
                    rep.bad(RULE1, key, "%s (evaluator of Statement::%s): %s" % (fn, variant, bad[0]), b.where())
                continue
            if bad:
                rep.bad(RULE1, key, "%s (evaluator of Statement::%s): %s (expected: %s)" % (
                    fn, variant, bad[0], "Err and no change of the symbol table" if must_fail else "Ok with exactly this name bound"), b.where(), detail={"rows": bad})
            elif und and not decided:
                if must_fail:
                    rep.note("undecided", "%s: %s: the row could not be evaluated over the model (%s); nothing reported" % (RULE1, key, und[0]))
                else:
                    rep.note("not-followed", "%s: %s: a successful define is not followed to its end by the model (%s)" % (RULE1, key, und[0]))
            else:
                rep.ok(RULE1, key, sample={"evaluator": fn, "state": state})
