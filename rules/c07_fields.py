"""C07-R7: the byte codecs of one record agree on WHICH field sits at each position.

Widths alone do not pin a layout: two neighbouring u32 fields can be exchanged in one codec and every width table still agrees, yet the
re-encoded file differs from the original (and a loader twin reads the operands into the wrong registers).  For every writer
(`T::write_to`, per match arm for enums) the ordered list (width, field) is extracted; for every reader region (function body, loop body,
match arm) the ordered list (width, name bound by `let NAME = ..read_X()..`, renamed to the struct field it initialises).  A writer is
paired with (a) the reader region that builds the same variant / reads the largest number of its fields and (b) the twin writer of the
sibling type with the same variant name or field set.  The names that occur on both sides must occur in the same order with the same width.
"""
import re
from lib.facts import find, walk, is_node, path_of, render, render_pat, last_seg
from lib import fxn as X
from lib.inline import inline_item, inlined_name

WIDTH = r"(u8|i8|u16|i16|u32|i32|u64|i64|u128|i128|f32|f64)"


# iterator adapters whose closure runs once per element: `xs.iter().try_for_each(|x| ..)` is the loop `for x in xs { .. }`
ITER_ADAPTERS = ("for_each", "try_for_each", "map", "filter_map", "flat_map", "inspect", "all", "any", "try_fold", "fold", "map_while", "take_while", "skip_while", "filter")
# methods between a collection and the iteration over it
ITER_PASS = ("iter", "iter_mut", "into_iter", "copied", "cloned", "enumerate", "rev", "by_ref", "peekable", "as_slice", "as_ref", "to_vec", "clone", "borrow", "deref")


def label(e, env=None):
    """field label of a written expression; `env` maps a local (loop variable, parameter of an expanded helper) to the label of what it stands for"""
    if not is_node(e):
        return "#"
    t = e[0]
    if t in ("un", "ref"):
        return label(e[2], env)
    if t == "cast":
        return label(e[1], env)
    if t == "paren":
        return label(e[1], env)
    if t == "field":
        return e[2] if isinstance(e[2], str) else str(e[2])
    if t == "path":
        name = e[1].split("::")[-1]
        if env and e[1] in env:
            return env[e[1]]
        return name if re.match(r"^[a-z_][A-Za-z0-9_]*$", name) else "#"
    if t == "index" and env is not None and not (is_node(e[2]) and e[2][0] == "range"):
        b = label(e[1], env)
        return "elem(%s)" % b if b != "#" else "#"
    if t == "mcall":
        if e[2] == "len":
            return "len(%s)" % label(e[1], env)
        if e[2] in ("clone", "into", "to_owned", "as_bytes", "as_slice", "borrow"):
            return label(e[1], env)
        return "#"
    if t == "if":
        for n in walk(e[1]):
            if n[0] in ("field", "path"):
                l = label(n, env)
                if l not in ("#", "self"):
                    return l
        return "#"
    return "#"


def _iter_base(e):
    """the collection an iterator expression walks over: `&xs`, `xs.iter()`, `xs.iter().copied().enumerate()` -> xs"""
    while is_node(e):
        if e[0] == "ref" or (e[0] == "un" and e[1] == "*"):
            e = e[2]
        elif e[0] == "paren":
            e = e[1]
        elif e[0] == "mcall" and e[2] in ITER_PASS and not e[4]:
            e = e[1]
        else:
            break
    return e


def _loop_var(pat):
    """the name bound to the element by a loop / closure pattern: `x`, `&x`, `(i, x)` (enumerate)"""
    p = pat
    for _ in range(6):
        if not is_node(p):
            return None
        if p[0] == "pref":
            p = p[2]
        elif p[0] == "ptype":
            p = p[1]
        elif p[0] == "ptuple" and p[1]:
            p = p[1][-1]
        else:
            break
    return p[1] if is_node(p) and p[0] == "pident" else None


def _bind_elem(pat, it, env):
    """`env` extended by the element variable of `for pat in it` / of a closure handed to an adapter of the iterator `it`"""
    base = _iter_base(it)
    if is_node(base) and base[0] == "range":
        return env
    lb = label(base, env)
    v = _loop_var(pat)
    if lb == "#" or v is None:
        return env
    env = dict(env)
    env[v] = "elem(%s)" % lb
    return env


def _simple_place(e):
    while is_node(e) and (e[0] in ("ref", "paren", "cast") or (e[0] == "un" and e[1] == "*")):
        e = e[2] if e[0] in ("ref", "un") else e[1]
    return is_node(e) and e[0] in ("path", "field")


def _param_env(block, env):
    """an expanded helper (lib.inline) starts with `let <param> = <argument>;`: the parameter stands for the argument"""
    env = dict(env)
    for st in block[1]:
        if not (is_node(st) and st[0] == "let" and st[2] is not None and _simple_place(st[2])):
            break
        v = _loop_var(st[1]) if not (is_node(st[1]) and st[1][0] == "ptuple") else None
        if v is None:
            break
        lb = label(st[2], env)
        if lb != "#":
            env[v] = lb
        else:
            env.pop(v, None)
    return env


def _wseq(n, env, out):
    if isinstance(n, dict):
        for v in n.values():
            _wseq(v, env, out)
        return
    if not isinstance(n, list):
        return
    if is_node(n):
        t = n[0]
        if t == "for":
            _wseq(n[2], env, out)
            _wseq(n[3], _bind_elem(n[1], n[2], env), out)
            return
        if t == "mcall":
            m = re.match(r"^write_%s$" % WIDTH, n[2])
            if m and n[4]:
                out.append((m.group(1), label(n[4][0], env)))
            elif n[2] in ("write_all", "extend_from_slice") and n[4]:
                out.append(("bytes", label(n[4][0], env)))
            _wseq(n[1], env, out)
            for a in n[4]:
                if is_node(a) and a[0] == "closure" and n[2] in ITER_ADAPTERS and a[1]:
                    _wseq(a[2], _bind_elem(a[1][-1], n[1], env), out)
                else:
                    _wseq(a, env, out)
            return
        if t == "block" and inlined_name(n):
            env = _param_env(n, env)
    for x in n:
        _wseq(x, env, out)


def write_seq(node, env=None):
    """(width, label) of every write_X / write_all in source order.  A loop over a collection - `for x in xs`, `xs.iter().try_for_each(|x| ..)`,
    `for_each`, `map(..).collect()`, `for i in 0..xs.len() { .. xs[i] }` - writes `elem(xs)`; a helper expanded by lib.inline has its
    parameters bound to the labels of the arguments"""
    out = []
    _wseq(node, dict(env or {}), out)
    return out


def _value_name(e):
    """the local whose value an expression yields: `x`, `Ok(x)`, `x?`, `x as T`, `&x`, `x.clone()`, `x.into_iter().collect()`"""
    for _ in range(10):
        if not is_node(e):
            return None
        t = e[0]
        if t == "path":
            return e[1] if re.match(r"^[a-z_][A-Za-z0-9_]*$", e[1]) else None
        if t in ("try", "paren", "cast"):
            e = e[1]
        elif t in ("ref", "un"):
            e = e[2]
        elif t == "call" and last_seg(path_of(e[1]) or "") in ("Ok", "Some", "Box::new", "new") and len(e[2]) == 1:
            e = e[2][0]
        elif t == "mcall" and e[2] in ("clone", "into", "to_owned", "to_vec", "into_iter", "collect", "into_boxed_slice", "unwrap") and not e[4]:
            e = e[1]
        else:
            return None
    return None


class _Reads:
    """reads of a reader region in source order, each labelled by what it is bound to.

    `let NAME = <.. first read_X ..>` -> NAME (as before); a read inside a struct literal field `T { f: r.read_X()? }` -> f; a read handed to
    `xs.push(..)` / produced by the closure of an iterator adapter bound to xs (`let xs = (0..n).map(|_| r.read_X()).collect()`) -> elem(xs).
    Aliases: `xs.push(NAME)` makes NAME an element of xs; a block (an expanded helper, lib.inline) whose value is a local of its own -
    `let args = { let mut regs = ..; ..; Ok(regs) }?` - makes that local the let-bound name.  A name that is the value of a struct literal
    field takes the field's name (as before), which wins over the aliases."""

    def __init__(self):
        self.seq = []        # [width, label, final]
        self.alias = {}

    def visit(self, n, ctx):
        if isinstance(n, dict):
            for v in n.values():
                self.visit(v, None)
            return
        if not isinstance(n, list):
            return
        if not is_node(n):
            for x in n:
                self.visit(x, ctx)
            return
        t = n[0]
        if t == "let":
            if len(n) < 3 or n[2] is None:
                return
            p = n[1]
            while is_node(p) and p[0] == "ptype":
                p = p[1]
            cell = [p[1].lstrip("_"), False] if is_node(p) and p[0] == "pident" else None
            self.visit(n[2], cell)
            if len(n) > 3 and n[3] is not None:
                self.visit(n[3], None)
            return
        if t == "expr":
            self.visit(n[1], ctx)
            return
        if t in ("block", "unsafe"):
            stmts = n[1]
            bound = set()
            for st in stmts:
                if is_node(st) and st[0] == "let":
                    bound |= {x[1].lstrip("_") for x in walk(st[1]) if x[0] == "pident"}
            for k, st in enumerate(stmts):
                tail = k == len(stmts) - 1 and is_node(st) and st[0] == "expr" and not st[2]
                if tail and ctx is not None and ctx[0] is not None:
                    v = _value_name(st[1])
                    if v is not None and v.lstrip("_") in bound:
                        self.alias.setdefault(v.lstrip("_"), ctx[0])
                    self.visit(st[1], ctx)
                else:
                    self.visit(st, None)
            return
        if t in ("for", "while", "loop"):
            for x in n[1:]:
                self.visit(x, None)
            return
        if t == "struct":
            for f in n[2]:
                self.visit(f[1], [f[0], True])
            if len(n) > 3:
                self.visit(n[3], None)
            return
        if t == "mcall":
            name, recv, args = n[2], n[1], n[4]
            m = re.match(r"^read_%s$" % WIDTH, name)
            if m:
                if ctx is not None and ctx[0] is not None:
                    self.seq.append([m.group(1), ctx[0], ctx[1]])
                    ctx[0] = None
                self.visit(recv, None)
                for a in args:
                    self.visit(a, None)
                return
            if name == "read_exact" and args:
                self.seq.append(["bytes", label(args[0]), False])
                self.visit(recv, None)
                return
            if name in ("push", "push_back", "push_front") and len(args) == 1 and label(recv) != "#":
                el = "elem(%s)" % label(recv)
                v = _value_name(args[0])
                if v is not None:
                    self.alias.setdefault(v.lstrip("_"), el)
                else:
                    self.visit(args[0], [el, False])
                self.visit(recv, None)
                return
            if name == "extend" and len(args) == 1 and label(recv) != "#":
                self.visit(args[0], ["elem(%s)" % label(recv), False])
                self.visit(recv, None)
                return
            self.visit(recv, ctx)
            for a in args:
                if is_node(a) and a[0] == "closure" and name in ITER_ADAPTERS:
                    if ctx is not None and ctx[0] is not None and not ctx[0].startswith("elem("):
                        cell = ["elem(%s)" % ctx[0], ctx[1]]
                        self.visit(a[2], cell)
                        if cell[0] is None:
                            ctx[0] = None
                    else:
                        self.visit(a[2], ctx)
                else:
                    self.visit(a, ctx)
            return
        if t == "closure":
            self.visit(n[2], ctx)
            return
        if t == "macro":
            return
        for x in n[1:]:
            self.visit(x, ctx)

    def result(self, node):
        ren, used = {}, set()
        for s in find(node, "struct"):
            for f in s[2]:
                v = f[1]
                if is_node(v) and v[0] == "path":
                    used.add(v[1].lstrip("_"))
                    if v[1] != f[0]:
                        ren.setdefault(v[1], f[0])
                        ren.setdefault(v[1].lstrip("_"), f[0])

        def resolve(l, depth=0):
            m = re.match(r"^(elem|len)\((.*)\)$", l)
            if m:
                return "%s(%s)" % (m.group(1), resolve(m.group(2), depth))
            if l in used or depth > 6 or l not in self.alias:
                return ren.get(l, l)
            return resolve(self.alias[l], depth + 1)
        return [(w, l if final else resolve(l)) for w, l, final in self.seq]


def read_seq(node):
    """(width, label) in source order for the reads of a region; see _Reads"""
    r = _Reads()
    r.visit(node, None)
    return r.result(node)


def pattern_renames(pat):
    """{bound local: field} for a struct pattern `T::V { field: local, .. }` (shorthand `{ field }` binds the field's own name)"""
    ren = {}
    for p in walk(pat):
        if p[0] == "pstruct":
            for f in p[2]:
                q = f[1]
                while is_node(q) and q[0] in ("pref", "ptype"):
                    q = q[2] if q[0] == "pref" else q[1]
                if is_node(q) and q[0] == "pident" and q[1] != f[0]:
                    ren[q[1]] = f[0]
    return ren


def rename_labels(seq, ren):
    if not ren:
        return seq

    def rn(l):
        m = re.match(r"^(len|elem)\((.*)\)$", l)
        if m:
            return "%s(%s)" % (m.group(1), rn(m.group(2)))
        return ren.get(l, l)
    return [(w, rn(l)) for w, l in seq]


def regions(it):
    """reader regions of a function: (description, node, lies inside an expanded helper)"""
    out = [("%s" % it["name"], it["body"], 0)]
    inl = set()
    for n in walk(it["body"]):
        if n[0] == "block" and inlined_name(n):
            inl |= {id(x) for x in walk(n)}
    k = 0
    for n in walk(it["body"]):
        if n[0] in ("for", "while", "loop"):
            body = n[3] if n[0] == "for" else (n[2] if n[0] == "while" else n[1])
            k += 1
            out.append(("%s:loop%d" % (it["name"], k), body, 1 if id(n) in inl else 0))
        elif n[0] == "match":
            for a in n[2]:
                out.append(("%s:arm[%s]" % (it["name"], render_pat(a[0])[:40]), a[2], 1 if id(n) in inl else 0))
    return out


def built(node):
    return {s[1].split("::")[-1] for s in find(node, "struct")} | {s[1] for s in find(node, "struct")}


def compare(ws, rs):
    """None if agreeing, else message"""
    lw = [l for _, l in ws if l != "#"]
    lr = [l for _, l in rs if l != "#"]
    common = set(lw) & set(lr)
    a = [(w, l) for w, l in ws if l in common]
    b = [(w, l) for w, l in rs if l in common]
    # a name read/written twice: keep first occurrences only
    def first(seq):
        seen, out = set(), []
        for w, l in seq:
            if l not in seen:
                seen.add(l)
                out.append((w, l))
        return out
    a, b = first(a), first(b)
    if [l for _, l in a] != [l for _, l in b]:
        return "field order %s vs %s" % ([l for _, l in a], [l for _, l in b])
    for (w1, l1), (w2, l2) in zip(a, b):
        if w1 != w2:
            return "field %s is %s on one side and %s on the other" % (l1, w1, w2)
    return None


def codec_helpers(items):
    """{name: fn item} of the functions a codec may hand part of a record to: the free functions of the given items and the associated
    functions without a receiver (`Self::read_operands(cur, n)`), the latter only under a name that is unique among all of them"""
    helpers, assoc = {}, {}
    for it in items:
        if it.get("body") is None:
            continue
        if it["k"] == "fn":
            helpers.setdefault(it["name"], it)
        elif it["k"] == "method" and not it.get("trait") and it["name"] != "write_to":
            inputs = it["sig"]["inputs"]
            if inputs and all(isinstance(p_, list) and len(p_) == 2 and p_[0] != "self" and is_node(p_[0]) for p_ in inputs):
                assoc.setdefault(it["name"], []).append(it)
    for name, its in assoc.items():
        if len(its) == 1 and name not in helpers:
            h = dict(its[0])
            h["assoc"] = True
            helpers[name] = h
    return helpers


def expand_helpers(it, helpers, depth=2, stop=()):
    """copy of a fn / method item with the calls to `helpers` replaced by their bodies (lib.inline: parameters bound by `let`, block marked
    `inlined:<name>`); calls of associated helpers `Self::h(..)` / `Type::h(..)` are followed like calls of free functions"""
    import copy
    assoc = {n for n, h in helpers.items() if h.get("assoc")}
    body = it["body"]
    if assoc and any(n[0] == "call" and is_node(n[1]) and n[1][0] == "path" and "::" in n[1][1] and n[1][1].split("::")[-1] in assoc for n in walk(body)):
        body = copy.deepcopy(body)
        for n in walk(body):
            if n[0] == "call" and is_node(n[1]) and n[1][0] == "path" and "::" in n[1][1]:
                segs = n[1][1].split("::")
                if segs[-1] in assoc and len(segs) == 2 and re.match(r"^[A-Z]\w*$", segs[0]):
                    n[1] = ["path", segs[-1]]
        it = dict(it, body=body)
    try:
        return inline_item(it, helpers, depth=depth, stop=stop, closures=False)
    except RecursionError:
        return it


def expand_self_methods(it, items, depth=2):
    """copy of a method item in which calls `self.h(args)` of inherent methods of the same type are replaced by
    `{ let <param> = <arg>; .. <body of h> }` (marked `inlined:h` like lib.inline does): `self` inside the helper is the caller's `self`, so a
    step of the method that was moved into a private `&mut self` helper is seen where it was"""
    import copy
    from lib.inline import _param_lets
    th = X.type_head(it.get("self") or "")
    methods = {}
    for m_ in items:
        if m_["k"] == "method" and not m_.get("trait") and m_.get("body") is not None and X.type_head(m_.get("self") or "") == th:
            inputs = m_["sig"]["inputs"]
            if inputs and isinstance(inputs[0], list) and inputs[0] and inputs[0][0] == "self":
                methods.setdefault(m_["name"], m_)
    log = []

    def sub(e, d, stack):
        if isinstance(e, dict):
            return {k: sub(v, d, stack) for k, v in e.items()}
        if not isinstance(e, list):
            return e
        out = [sub(x, d, stack) for x in e]
        if d > 0 and is_node(out) and out[0] == "mcall" and out[1] == ["path", "self"] and out[2] in methods and out[2] not in stack:
            h = methods[out[2]]
            lets = _param_lets({"sig": {"inputs": h["sig"]["inputs"][1:]}}, out[4])
            if lets is not None:
                log.append(out[2])
                return ["block", lets + sub(copy.deepcopy(h["body"]), d - 1, stack + (out[2],)), "inlined:%s" % out[2]]
        return out
    res = dict(it)
    res["body"] = sub(copy.deepcopy(it["body"]), depth, (it["name"],))
    res["inlined"] = sorted(set(log))
    return res


def run_r7(F, rep, crate):
    rep.rule("C07-R7", "record codecs agree field by field: for every writer (T::write_to, per variant) the fields it writes occur in the same order and width in the "
                      "reader that rebuilds the record and in the twin writer of the sibling type (compile-side EncodedInstr/ConstEntry vs load-side DecodedInstr/ParsedConstEntry)")
    core = [it for it in F.syn(crate) if it.get("mod", "").startswith("program")]
    # private helpers are transparent on both sides: `write_operands(w, args)?` in a writer arm and `read_operands(&mut cur, n)?` in a reader arm
    # are looked at as their bodies with the parameters bound to the arguments (two levels)
    helpers = codec_helpers(core)

    def expanded(it):
        return expand_helpers(it, helpers)
    writers = {}      # key -> (seq, where)
    for it in core:
        if it["k"] == "method" and it["name"] == "write_to" and not it.get("trait") and it.get("body"):
            th = X.type_head(it["self"])
            it = expanded(it)
            arms = None
            for m in find(it["body"], "match"):
                if is_node(m[1]) and render(m[1]) in ("self", "*self") and len(m[2]) >= 3:
                    arms = m[2]
                    break
            if arms:
                for a in arms:
                    mm = re.search(r"(\w+)::(\w+)", render_pat(a[0]))
                    if mm:
                        writers["%s::%s" % (th, mm.group(2))] = (rename_labels(write_seq(a[2]), pattern_renames(a[0])), "%s::write_to arm %s" % (th, mm.group(2)))
            else:
                writers[th] = (write_seq(it["body"]), "%s::write_to" % th)
    readers = []
    for it in core:
        if it["k"] in ("fn", "method") and it.get("body") and it["name"] != "write_to":
            it = expanded(it)
            if not any(n[0] == "mcall" and re.match(r"^read_", n[2]) for n in walk(it["body"])):
                continue
            for desc, node, foreign in regions(it):
                rs = read_seq(node)
                if rs:
                    readers.append((desc, rs, built(node), foreign))
    n_wr = n_ww = 0
    paired = {}
    for key, (ws, where) in sorted(writers.items()):
        labels = {l for _, l in ws if l != "#" and not l.startswith("len(")}
        if not labels:
            continue
        variant = key.split("::")[-1]
        # (a) reader: the region that builds this variant (enum writers) else the region sharing most names; smallest such region
        cands = []
        for desc, rs, bl, nexp in readers:
            ov = len(labels & {l for _, l in rs})
            if "::" in key:
                if variant in bl and ov >= 1:
                    # the region that builds this variant and as few others as possible (the decoder arm, not the whole decoder: the
                    # operand names of the other arms must not count as overlap), then the largest overlap, then the smallest region
                    cands.append((len({x for x in bl if "::" in x}), -ov, len(rs), nexp, desc, rs))
            elif ov >= min(2, len(labels)):
                cands.append((0 if key in bl else 1, -ov, len(rs), nexp, desc, rs))
        if cands:
            # ties (the same region seen in a helper and, expanded, in its callers): the function the code is written in
            cands.sort(key=lambda c: c[:5])
            paired[key] = (cands[0][4], cands[0][5], False)
    # a reader that binds the fields to bare locals and builds no struct (`let id = ..; let reg = ..; map.insert(id, reg)`) shares no
    # name with the writer once the locals are renamed: pair a still unpaired struct writer with the only unclaimed loop region that
    # reads as many items as the writer writes, and compare the widths position by position
    claimed = {d for d, _, _ in paired.values()}
    claimed_rs = {tuple(r) for _, r, _ in paired.values()}
    for key, (ws, where) in sorted(writers.items()):
        if key in paired or "::" in key or len(ws) < 3 or not {l for _, l in ws if l != "#" and not l.startswith("len(")}:
            continue
        shaped, seen_rs = [], set()
        for desc, rs, bl, nexp in sorted(readers, key=lambda r: r[3]):
            if ":loop" in desc and desc not in claimed and len(rs) == len(ws) and not bl and tuple(rs) not in seen_rs and tuple(rs) not in claimed_rs:
                seen_rs.add(tuple(rs))          # the loop of a helper is seen in the helper and, expanded, in each of its callers: one region
                shaped.append((desc, rs))
        if len(shaped) == 1:
            paired[key] = (shaped[0][0], shaped[0][1], True)
        elif len(shaped) > 1:
            same = [(d, r) for d, r in shaped if [w for w, _ in r] == [w for w, _ in ws]]
            if len(same) == 1:
                paired[key] = (same[0][0], same[0][1], True)
            else:
                rep.note("C07-R7-undecided", {"writer": where, "why": "no reader shares a field name with it and %d loop regions read %d items" % (len(shaped), len(ws))})
    for key, (ws, where) in sorted(writers.items()):
        labels = {l for _, l in ws if l != "#" and not l.startswith("len(")}
        if not labels:
            continue
        variant = key.split("::")[-1]
        if key in paired:
            desc, rs, by_shape = paired[key]
            n_wr += 1
            msg = compare(ws, rs)
            if msg is None and by_shape and [w for w, _ in ws] != [w for w, _ in rs]:
                msg = "widths %s vs %s" % ([w for w, _ in ws], [w for w, _ in rs])
            rep.check(msg is None, "C07-R7", "read:%s" % key,
                      "%s writes %s but its reader %s reads %s: %s - a file re-encoded by to_bytes (or loaded by the reader) no longer carries each operand in its own slot" % (
                          where, ws, desc, rs, msg), where, sample={"writer": where, "writes": ws, "reader": desc, "reads": rs})
        # (b) twin writer
        for key2, (ws2, where2) in sorted(writers.items()):
            if key2 <= key:
                continue
            l2 = {l for _, l in ws2 if l != "#" and not l.startswith("len(")}
            same_variant = "::" in key and "::" in key2 and key2.split("::")[-1] == variant and key2.split("::")[0] != key.split("::")[0]
            same_fields = "::" not in key and "::" not in key2 and len(labels) >= 3 and labels == l2
            if not (same_variant or same_fields):
                continue
            n_ww += 1
            msg = compare(ws, ws2)
            if msg is None and [w for w, _ in ws] != [w for w, _ in ws2][:len(ws)] and [w for w, _ in ws][:len(ws2)] != [w for w, _ in ws2]:
                msg = "widths %s vs %s" % ([w for w, _ in ws], [w for w, _ in ws2])
            rep.check(msg is None, "C07-R7", "twin:%s=%s" % (key, key2),
                      "%s writes %s but %s writes %s: %s - the compiler's encoder and the re-encoder of a loaded program produce different bytes for the same record" % (
                          where, ws, where2, ws2, msg), where, sample={"a": where, "a_writes": ws, "b": where2, "b_writes": ws2})
    rep.floor("C07-R7", "writer/reader pairs compared", n_wr, 11)
    rep.floor("C07-R7", "twin writer pairs compared", n_ww, 8)


def run_r8(F, rep, crate, tier="quick"):
    """C07-R8: the compiler pads each constant to the alignment the loader checks"""
    from lib.ministmt import Machine, NoEval, Panic
    rep.rule("C07-R8", "CompileCtx::compile_const pads the blob with align_up(len, align): over the finite table (every alignment ValueKind::align()/ConstElem::align() returns x "
                      "every length 0..4*align+1) the result is the SMALLEST multiple of align that is >= len (a smaller value overlaps the previous constant, a non-multiple is "
                      "rejected by the loader's check_alignment, a larger one changes the bytes of every later offset); and the offset recorded in the entry is that padded offset")
    core = F.syn(crate)
    aligns = set()
    for it in core:
        if it["k"] == "method" and it["name"] == "align" and it.get("body"):
            for x in walk(it["body"]):
                if x[0] == "int":
                    try:
                        v = int(re.sub(r"[^0-9].*$", "", str(x[1])))
                        if 0 < v <= 64:
                            aligns.add(v)
                    except ValueError:
                        pass
    rep.floor("C07-R8", "distinct alignments", len(aligns), 4)
    fns = [it for it in core if it["k"] == "fn" and it["name"] == "align_up" and it.get("body")]
    if not rep.check(len(fns) == 1, "C07-R8", "anchor:align_up", "align_up not found (%d)" % len(fns)):
        return
    it = fns[0]
    params = [p[0][1] for p in it["sig"]["inputs"] if is_node(p[0]) and p[0][0] == "pident"]
    if not rep.check(len(params) == 2, "C07-R8", "anchor:align_up-signature", "align_up no longer takes (offset, align)"):
        return
    wrong, n = [], 0
    undecided = None
    for a in sorted(aligns):
        for off in range(0, (4 if tier != "thorough" else 64) * a + 2):
            m = Machine({params[0]: off, params[1]: a})
            try:
                r = m.call(it["body"])
            except NoEval as e:
                undecided = str(e)
                break
            except Panic as e:
                wrong.append("align_up(%d, %d) panics (%s)" % (off, a, e))
                continue
            n += 1
            want = ((off + a - 1) // a) * a
            if r != want:
                wrong.append("align_up(%d, %d) = %s, expected %d" % (off, a, r, want))
        if undecided:
            break
    if undecided:
        rep.bad("C07-R8", "align_up:undecided", "align_up could not be evaluated over the table (%s)" % undecided, "align_up (%s)" % crate)
    else:
        rep.check(not wrong, "C07-R8", "align_up:smallest-multiple" if not wrong else "align_up:wrong:%s" % re.sub(r"\W+", "-", wrong[0])[:40],
                  "align_up is not `smallest multiple of align >= offset`: %s%s - constants are written at offsets the loader rejects (ConstantEntryAlignmentError) or that overlap the previous constant" % (
                      "; ".join(wrong[:3]), " (+%d more)" % (len(wrong) - 3) if len(wrong) > 3 else ""), "align_up (%s)" % crate, sample={"alignments": sorted(aligns), "evaluations": n})
    rep.floor("C07-R8", "align_up evaluations", n, 20)
    # the entry records the padded offset, and the blob is resized to it before the bytes are appended
    cc = [x for x in core if x["k"] == "method" and x["name"] == "compile_const" and x.get("body") and "CompileCtx" in (x.get("self") or "")]
    if rep.check(len(cc) == 1, "C07-R8", "anchor:CompileCtx::compile_const", "CompileCtx::compile_const not found (%d)" % len(cc)):
        # the padding step may live in a private `&mut self` helper (`self.pad_blob(align)`) or a free function: looked at where it is called
        # (never entering align_up itself: its call is what is looked for)
        body = expand_helpers(expand_self_methods(cc[0], core), codec_helpers([x for x in core if (x.get("mod") or "").startswith("program")]), stop=(it["name"],))["body"]
        padded = None
        for st in find(body, "let"):
            if st[1][0] == "pident" and st[2] is not None and any((path_of(c[1]) or "").endswith("align_up") for c in find(st[2], "call")):
                padded = st[1][1]
        offs = [f for s in find(body, "struct") if s[1].split("::")[-1] == "ConstEntry" for f in s[2] if f[0] == "offset"]
        # accepted: offset is the padded variable itself, or a variable read from `blob.len()` after the resize to the padded offset and before the bytes are appended
        order = {}
        for k, st in enumerate(body):
            txt = render(st[2]) if st[0] == "let" and st[2] is not None else render(st[1]) if st[0] == "expr" else ""
            if padded and re.search(r"\.resize\(.*\b%s\b" % re.escape(padded), txt):
                order["resize"] = k
            if re.search(r"\.extend_from_slice\(|\.extend\(|\.write_all\(", txt) and "extend" not in order:
                order["extend"] = k
        offvar = render(offs[0][1]) if len(offs) == 1 else None
        defk = None
        for k, st in enumerate(body):
            if st[0] == "let" and st[1][0] == "pident" and st[1][1] == offvar and st[2] is not None and re.search(r"\.len\(\)", render(st[2])):
                defk = k
        ok = padded is not None and offvar is not None and (offvar == padded or (defk is not None and "resize" in order and "extend" in order and order["resize"] < defk < order["extend"]))
        rep.check(ok, "C07-R8", "compile_const:entry-offset-is-padded-offset",
                  "compile_const records `%s` as the constant's offset, which is neither the align_up result `%s` nor the blob length read after padding to it and before appending the bytes: "
                  "the entry points at the padding or into the previous constant" % (offvar, padded), "CompileCtx::compile_const (%s)" % crate)


def _write_seq_items(node):
    """write_seq plus nested item writes `X.write_le(out)` in source order"""
    out = []
    for n in walk(node):
        if n[0] == "mcall":
            m = re.match(r"^write_%s$" % WIDTH, n[2])
            if m and n[4]:
                out.append((m.group(1), label(n[4][0])))
            elif n[2] in ("write_all", "extend_from_slice") and n[4]:
                out.append(("bytes", label(n[4][0])))
            elif n[2] == "write_le" and n[4]:
                out.append(("item", label(n[1])))
    return out


def _read_seq_items(node):
    seq = []
    for n in walk(node):
        if n[0] == "let" and len(n) >= 3 and n[2] is not None and is_node(n[1]):
            p = n[1]
            while p[0] == "ptype":
                p = p[1]
            if p[0] != "pident":
                continue
            hit = None
            for x in walk(n[2]):
                if x[0] == "mcall":
                    m = re.match(r"^read_%s$" % WIDTH, x[2])
                    if m:
                        hit = m.group(1)
                        break
                if x[0] == "call" and (path_of(x[1]) or "").endswith("::from_le"):
                    hit = "item"
                    break
            if hit:
                seq.append((hit, p[1].lstrip("_")))
    ren = {}
    for s in find(node, "struct"):
        for f in s[2]:
            v = f[1]
            if is_node(v) and v[0] == "path" and v[1] != f[0]:
                ren.setdefault(v[1], f[0])
    return [(w, ren.get(l, l)) for w, l in seq]


def run_const_fields(F, rep, crate, rule="C06-R17"):
    """constant codecs (ConstElem::write_le / from_le, CompileConst::compile_const) agree on the order of the named fields"""
    rep.rule(rule, "constant codecs agree field by field: for every type, the named fields ConstElem::write_le writes (rows, cols, ids, lengths ..) are read by ConstElem::from_le in the "
                   "same order and width, and CompileConst::compile_const (the encoder the compiler actually uses) writes them in that order too")
    W, R, Cc = {}, {}, {}
    for it in F.syn(crate):
        if it["k"] != "method" or not it.get("body"):
            continue
        tr = it.get("trait") or ""
        key = re.sub(r"\s", "", it["self"])
        if it["name"] == "write_le" and "ConstElem" in tr:
            if any(len(m[2]) >= 3 for m in find(it["body"], "match")):
                continue          # enum codecs (one layout per variant) are C06-R10/R11's
            W[key] = _write_seq_items(it["body"])
        elif it["name"] == "from_le" and "ConstElem" in tr:
            R[key] = _read_seq_items(it["body"])
        elif it["name"] == "compile_const" and "CompileConst" in tr:
            Cc[key] = _write_seq_items(it["body"])
    n_r = n_c = 0
    for key, ws in sorted(W.items()):
        named = [l for _, l in ws if l != "#" and not l.startswith("len(")]
        for other, tag, store in ((R.get(key), "from_le", "r"), (Cc.get(key), "compile_const", "c")):
            if not other:
                continue
            common = set(named) & {l for _, l in other}
            if len(common) < 2:
                continue
            if store == "r":
                n_r += 1
            else:
                n_c += 1
            msg = compare([(w, l) for w, l in ws if not l.startswith("len(")], other)
            rep.check(msg is None, rule, "%s:write_le=%s" % (key, tag) if msg is None else "%s:write_le!=%s:%s" % (key, tag, re.sub(r"\W+", "-", msg)[:50]),
                      "%s: write_le writes %s but %s %s %s: %s - a constant of this type is rebuilt with its fields exchanged (or the compiled bytes differ from what the decoder expects)" % (
                          key, ws, tag, "reads" if store == "r" else "writes", other, msg), "%s (%s)" % (key, crate), sample={"type": key, "write_le": ws, tag: other})
    rep.floor(rule, "write_le/from_le pairs with >= 2 shared field names", n_r, 2)
    rep.floor(rule, "write_le/compile_const pairs with >= 2 shared field names", n_c, 1)


def run_r9(F, rep, crate):
    """C07-R9: a length prefix counts the bytes that follow it"""
    rep.rule("C07-R9", "length prefixes measure the bytes they precede: wherever a writer emits `write_uN(E)` directly followed by the raw bytes of B (extend_from_slice / write_all), E is "
                      "`len()` of that same byte sequence (for a String: its UTF-8 length, not its character count) - the readers take the prefix as a byte count")
    n = 0
    for it in F.syn(crate):
        if it["k"] not in ("method", "fn") or not it.get("body") or not (it.get("mod") or "").startswith("program"):
            continue
        seq = []
        runs = 0
        for x in walk(it["body"]):
            if x[0] == "mcall":
                m = re.match(r"^write_(u16|u32|u64)$", x[2])
                if m and x[4]:
                    seq.append(("len", x[4][0]))
                elif x[2] in ("extend_from_slice", "write_all") and x[4]:
                    seq.append(("bytes", x[4][0]))
                elif re.match(r"^write_", x[2]):
                    seq.append(("other", None))
        for (k1, e1), (k2, e2) in zip(seq, seq[1:]):
            if k1 != "len" or k2 != "bytes":
                continue
            if not any(y[0] == "mcall" for y in walk(e1)):
                continue          # a constant or a plain field, not a computed length
            norm_b = re.sub(r"\.as_bytes\(\)|\.as_slice\(\)|\.as_ref\(\)|[&*()\s]", "", render(e2))
            txt = re.sub(r"[&*\s]", "", render(e1))
            txt = re.sub(r"\(([^()]*)as\w+\)", r"\1", txt)
            txt = re.sub(r"as(u16|u32|u64|usize)\)?$", "", txt).strip("()")
            n += 1
            ok = txt == norm_b + ".len" or txt == norm_b + ".len()" or txt.replace("()", "") == (norm_b + ".len")
            who = "%s::%s" % (it.get("self") or it.get("mod"), it["name"])
            # the key names the byte run by the field path it is taken from (`self.x`, `e.bytes` of a loop over self) or, when it is a
            # plain local, by its ordinal among the length-prefixed runs of the function: never by the spelling of a local
            runs += 1
            is_local = re.match(r"^[a-z_][A-Za-z0-9_]*$", norm_b) and norm_b != "self"
            what = "run%d" % runs if is_local else re.sub(r"^[a-z_][A-Za-z0-9_]*\.", "item.", norm_b) if not norm_b.startswith("self") else norm_b
            shown = re.sub(r"\W+", "-", txt.replace(norm_b, "B") if is_local else txt)
            rep.check(ok, "C07-R9", "%s:prefix-of-%s" % (who, what[:30]) if ok else "%s:prefix-of-%s:is-%s" % (who, what[:20], shown[:40]),
                      "%s writes the length prefix `%s` in front of the bytes `%s`: the reader consumes that many BYTES, so any difference between the two (e.g. characters vs UTF-8 bytes) "
                      "truncates the value or runs into the next field" % (who, render(e1)[:50], render(e2)[:40]), "%s (%s)" % (who, crate), sample={"writer": who, "prefix": render(e1)[:50], "bytes": render(e2)[:40]})
    rep.floor("C07-R9", "length-prefixed byte runs", n, 3)
