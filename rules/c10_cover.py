"""C10-R10 — every kind of prose the grammar can produce is ACCEPTED by the document interpreter.

`section_element()` dispatches on the `SectionElement` node.  C10-R1 checks that the arms of prose variants are inert; this rule checks the
other half: that every variant of the enum (as compiled in this configuration: the ADT facts are cfg-resolved) is named by an arm that does
not reject it.  The dispatcher ends in a catch-all `x => Err(FeatureNotEnabled)`, so deleting or never adding the arm of a prose variant
still compiles; a document that contains such an element then aborts at that element and nothing after it is evaluated - prose is no longer
inert.  Reviewed exceptions are listed with a reason each."""
import re
from lib.facts import find, is_node, path_of, render_pat, walk

REJECTED_OK = {
    "Error": "the node the parser leaves where a section element failed to parse: the document has an error report, not a value",
}


def _rejects(body):
    """the arm's own body constructs an Err (a `?` on an evaluator's result is not a rejection of the variant)"""
    for n in walk(body):
        if is_node(n) and n[0] == "closure":
            continue
        if is_node(n) and n[0] == "call" and (path_of(n[1]) or "").split("::")[-1] == "Err":
            return True
    return False


def run_r10(F, rep):
    rep.rule("C10-R10", "every SectionElement variant compiled in is named by an arm of section_element() that does not reject it (the catch-all arm is an Err): a prose element "
                        "without an accepting arm aborts the document at that element, so the code after it is never evaluated")
    enum = [a for a in F.adts("mech_core.lib") if a["name"].endswith("::SectionElement") and a.get("enum")]
    items = F.syn("mech_interpreter.lib")
    disp = None
    for it in items:
        if it["k"] != "fn" or not it.get("body"):
            continue
        if not any("SectionElement" in str(p[1]) for p in (it.get("sig") or {}).get("inputs", []) if len(p) > 1):
            continue
        for m in find(it["body"], "match"):
            vs = [v for a in m[2] for v in re.findall(r"SectionElement::(\w+)", render_pat(a[0]))]
            if len(set(vs)) >= 10 and (disp is None or len(set(vs)) > disp[2]):
                disp = (it, m, len(set(vs)))
    if not rep.check(bool(enum) and disp is not None, "C10-R10", "anchor:section-element-dispatcher", "the SectionElement enum or the function that dispatches on it was not found"):
        return
    it, m, _ = disp
    accepted, rejected = set(), set()
    for a in m[2]:
        vs = set(re.findall(r"SectionElement::(\w+)", render_pat(a[0])))
        if not vs:
            continue
        (rejected if _rejects(a[2]) else accepted).update(vs)
    variants = [v["name"] for v in enum[0]["variants"]]
    rep.floor("C10-R10", "SectionElement variants compiled in", len(variants), 25)
    for v in variants:
        if v in accepted:
            rep.ok("C10-R10", "accepted:%s" % v, sample={"variant": v, "dispatcher": it["name"]})
        elif v in REJECTED_OK:
            rep.ok("C10-R10", "rejected-by-design:%s" % v, sample={"variant": v, "reason": REJECTED_OK[v]})
        else:
            rep.bad("C10-R10", "not-accepted:%s" % v,
                    "SectionElement::%s has no accepting arm in %s(): it %s, so a document containing this element stops being evaluated there" % (
                        v, it["name"], "is rejected by its own arm" if v in rejected else "falls into the catch-all error arm"),
                    "src/interpreter/src/mechdown.rs (%s, expanded line %d)" % (it["name"], it["line"]))
