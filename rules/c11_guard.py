"""C11-R1 — shape agreement of the blocks handed to MatrixHorzCat / MatrixVertCat, decided on the MIR.

The mechanism (in `matrix_row` for dimension 0, in `matrix` for dimension 1, or in a private helper either of them calls):
a loop produces block values and pushes them onto the `Vec<Value>` that is later handed to the concatenation compiler.
The rule follows every path of one iteration from the point where the block value is produced to the push and requires
that the path takes either

  * the AGREE edge of a comparison `reference[d] == block.shape()[d]` (written with `==` or `!=`, nested, as a guard clause
    with an early return, as a `match` guard, through named locals, or inside a private checking helper), where one side is
    element d of the shape of the block being accepted and the other side element d of a loop-carried reference shape
    (a local that is also assigned from an accepted block's shape, or the shape of an already accepted block), or
  * an assignment of that reference shape from the block's own shape (the block becomes the reference: the first block), or
  * the `is_empty()` / `len() == 0` edge of the accumulator (same thing, when the reference is the first accepted block).

The DISAGREE edge of the comparison must end the function with an Err (never reach a push, the next iteration, the
concatenation compiler or an Ok exit), and the concatenation compiler must be called after, and not inside, the loop.

Nothing here depends on the name of a local, on which of `if`/`match`/guard clause is used, on whether the test or the push
sits in the function itself or in a private helper, or on the operand order of the comparison.
"""
import re
from lib.facts import CallGraph
from lib.mirflow import Flow, callee, private_callees
from lib.mirq import result_exits, Slice, PASS_THROUGH

VALUE_T = "mech_core::value::Value"
SHAPE_FN = re.compile(r"(^|::)Value::shape$")
INDEX_FN = re.compile(r"::index$")
REV_FN = re.compile(r"::rev$|::next_back$|::rfold$")
PUSH_FN = re.compile(r"Vec::<T, A>::push$|Vec::<T>::push$|VecDeque::<T, A>::push_back$")


def _const_int(o):
    if isinstance(o, dict) and "c" in o:
        m = re.match(r"^(\d+)", str(o["c"]))
        if m:
            return int(m.group(1))
    return None


class Ctx:
    """one analysed body: the push sites, the block value they accept and the accumulator"""

    def __init__(self, body):
        self.b = body
        self.fl = Flow(body)
        self.vchain = set()
        self.acc = set()
        # element access of the accumulator passes the accumulator's identity on
        self.sl2 = Slice(body, passthrough=re.compile(PASS_THROUGH.pattern + r"|(::first$|::last$|::get$|::first_mut$|::last_mut$)"))


def extent(fl, op):
    """usize operand -> (d, base operand) when it is element d (constant index) of an indexable value"""
    o = fl.origin(op)
    if o[0] == "call" and INDEX_FN.search(callee(o[2])) and len(o[2]["args"]) == 2:
        d = _const_int(o[2]["args"][1])
        if d is not None:
            return d, o[2]["args"][0]
    if o[0] == "stmt" and o[2].get("rk") in ("use", "ref") and o[2]["src"] and isinstance(o[2]["src"][0], list):
        proj = o[2]["src"][0][1] or ""
        m = re.search(r"^(.*)\[(\d+)( of \d+)?\]$", proj)
        if m:
            return int(m.group(2)), [o[2]["src"][0][0], m.group(1)]
        m = re.search(r"^(.*)\[_(\d+)\]$", proj)
        if m:
            oi = fl.origin([int(m.group(2)), ""])
            d = _const_int({"c": oi[1]}) if oi[0] == "const" else None
            if d is not None:
                return d, [o[2]["src"][0][0], m.group(1)]
    return None


def classify_value(cx, op):
    """a Value operand: 'current' (the block being accepted), 'accepted' (an element of the accumulator) or None"""
    feeds = cx.sl2.locals_feeding(op)
    if feeds & cx.vchain:
        return "current"
    if feeds & cx.acc:
        return "accepted"
    return None


def _shape_calls_in(cx, op):
    """(block, term) of every Value::shape call on the backward slice of op"""
    out = []
    for r in cx.fl.sl.roots(op):
        if r[0] == "call" and SHAPE_FN.search(r[1]):
            t = cx.b.blocks[r[2]]["t"]
            if t["k"] == "call":
                out.append((r[2], t))
    return out


def classify_vec(cx, base):
    """a shape-vector operand -> ('current',) | ('record', local) | ('accepted',) | None"""
    fl = cx.fl
    o = fl.origin(base)
    if o[0] == "call" and SHAPE_FN.search(callee(o[2])) and o[2]["args"]:
        k = classify_value(cx, o[2]["args"][0])
        if k == "current":
            return ("current",)
        if k == "accepted":
            return ("accepted",)
        return None
    if o[0] == "multi":
        l = o[1]
        for blk, s in fl.live_defs(l):
            srcs = s["args"] if s.get("k") == "call" else s.get("src", [])
            for x in srcs:
                if not isinstance(x, list):
                    continue
                for cb, ct in _shape_calls_in(cx, x):
                    if classify_value(cx, ct["args"][0]) == "current":
                        return ("record", l)
            if s.get("k") == "call" and SHAPE_FN.search(callee(s)) and classify_value(cx, s["args"][0]) == "current":
                return ("record", l)
    return None


def record_assign_blocks(cx, l):
    """blocks where the reference shape `l` is (re)assigned from the current block's shape"""
    out = set()
    for blk, s in cx.fl.live_defs(l):
        if s.get("k") == "call":
            if SHAPE_FN.search(callee(s)) and classify_value(cx, s["args"][0]) == "current":
                out.add(s.get("t", blk))
            continue
        for x in s.get("src", []):
            if isinstance(x, list) and any(classify_value(cx, ct["args"][0]) == "current" for cb, ct in _shape_calls_in(cx, x)):
                out.add(blk)
    return out


# ---------------------------------------------------------------- summaries of private checking helpers
def _param_extent(fk, op):
    """inside a helper: usize operand -> (param index, path) with path () | (d,) | ('shape', d)"""
    e = extent(fk, op)
    if e is None:
        o = fk.origin(op)
        if o[0] == "arg":
            return o[1], ()
        return None
    d, base = e
    ob = fk.origin(base)
    if ob[0] == "arg":
        return ob[1], (d,)
    if ob[0] == "call" and SHAPE_FN.search(callee(ob[2])) and ob[2]["args"]:
        orc = fk.origin(ob[2]["args"][0])
        if orc[0] == "arg":
            return orc[1], ("shape", d)
    return None


def _cmp_of(fl, kind, payload):
    """normalise a condition to (op, lhs, rhs) for Eq/Ne comparisons (binary op or PartialEq::eq / ne call)"""
    if kind == "cmp" and payload[0] in ("Eq", "Ne"):
        return payload[0], payload[1], payload[2]
    if kind == "call":
        blk, t = payload
        m = re.search(r"PartialEq::(eq|ne)$", t["tf"])
        if m and len(t["args"]) == 2:
            return ("Eq" if m.group(1) == "eq" else "Ne"), t["args"][0], t["args"][1]
    return None


def summarise_check(kb):
    """a private helper that tests two extents for equality: returns {'sides': ((i, path), (j, path)), 'pass': 'true'|'false'|'ok'} or None.
    'ok' = the helper returns Result and every Ok exit lies behind the agree edge; 'true'/'false' = it returns the bool of the comparison (or its negation)."""
    fk = Flow(kb)
    ret_ty = kb.locals[0] if kb.locals else ""
    if ret_ty == "bool":
        ds = fk.live_defs(0)
        if len(ds) == 1:
            kind, payload, pol = fk.cond([0, ""])
            c = _cmp_of(fk, kind, payload)
            if c:
                a, b = _param_extent(fk, c[1]), _param_extent(fk, c[2])
                if a and b and a[0] != b[0]:
                    return {"sides": (a, b), "pass": "true" if (c[0] == "Eq") == pol else "false"}
        return None
    if "result::Result" in ret_ty:
        ok, err = result_exits(kb)
        if not ok or not err:
            return None
        tests = []
        for i in range(len(kb.blocks)):
            be = fk.bool_edges(i)
            if not be:
                continue
            kind, payload, pol = fk.cond(be[0])
            c = _cmp_of(fk, kind, payload)
            if not c:
                continue
            a, b = _param_extent(fk, c[1]), _param_extent(fk, c[2])
            if a and b and a[0] != b[0]:
                val = (c[0] == "Eq") if pol else (c[0] != "Eq")
                tests.append(((i, be[1][val]), (a, b)))
        for edge, sides in tests:
            if not (fk.reach([0], cut_edges=[edge]) & ok):
                return {"sides": sides, "pass": "ok"}
    return None


def always_err(kb):
    ok, err = result_exits(kb)
    return bool(err) and not ok and not any(blk["t"]["k"] == "call" and blk["t"]["d"][0] == 0 and not callee(blk["t"]).endswith("from_residual") for blk in kb.blocks)


# ---------------------------------------------------------------- the analysis of one gathering body
def loop_header(b, p):
    """innermost natural-loop header around block p (None when p is not in a loop)"""
    idom = b.idom()
    x = p
    seen = set()
    while x not in seen:
        seen.add(x)
        for y in b.pred(x):
            if b.dominates(x, y) and (y == p or y in b.reachable_from([p])):
                return x
        if x == 0 or x not in idom:
            return None
        x = idom[x]
    return None


def push_sites(b):
    return [(i, t) for i, t in b.calls() if PUSH_FN.search(callee(t)) and t.get("ga") and t["ga"][0] == VALUE_T and len(t["args"]) == 2]


def analyse(body, dim, cg, acc_filter=None):
    """returns a dict of findings for the body that holds the pushes"""
    cx = Ctx(body)
    fl = cx.fl
    b = body
    res = {"pushes": [], "tests": [], "bad_dims": [], "forward": True, "in_loop": 0, "guarded": 0, "err_ok": None, "notes": []}
    sites = push_sites(b)
    if acc_filter is not None:
        sites = [(i, t) for i, t in sites if fl.base_local(t["args"][0]) == acc_filter]
    sites = [(i, t) for i, t in sites if loop_header(b, i) is not None]
    res["pushes"] = sites
    res["in_loop"] = len(sites)
    if not sites:
        return res
    for i, t in sites:
        cx.vchain |= set(fl.chain(t["args"][1]))
        a = fl.base_local(t["args"][0])
        if a is not None:
            cx.acc.add(a)
    # where one iteration starts: behind the call that produces the block value (else: the loop header)
    starts = {}
    producers = set()
    for i, t in sites:
        o = fl.origin(t["args"][1])
        if o[0] == "call" and b.dominates(o[1], i) and o[1] != i:
            starts[i] = [o[2]["t"]] if "t" in o[2] else []
            producers.add(o[1])
            allroots = set()
            for a in o[2]["args"]:
                allroots |= fl.sl.roots(a)
            if any(r[0] == "call" and REV_FN.search(r[1]) for r in allroots):
                res["forward"] = False
        else:
            h = loop_header(b, i)
            starts[i] = [h]
            producers.add(h)
    # an iterator stepped inside the loop must not be a reversed one
    for x, tt in b.calls():
        if re.search(r"Iterator::next$|Iterator::next_back$", tt["tf"]) and tt["args"] and any(b.dominates(x, p) and loop_header(b, x) is not None for p, _ in sites):
            if tt["tf"].endswith("next_back") or any(r[0] == "call" and REV_FN.search(r[1]) for r in fl.sl.roots(tt["args"][0])):
                res["forward"] = False
    # the comparisons
    agree_edges, disagree = set(), []
    records = set()
    first_edges = set()
    for i in range(len(b.blocks)):
        if b.blocks[i]["cl"]:
            continue
        t = b.blocks[i]["t"]
        found = None
        be = fl.bool_edges(i)
        if be:
            kind, payload, pol = fl.cond(be[0])
            c = _cmp_of(fl, kind, payload)
            if c:
                ea, eb = extent(fl, c[1]), extent(fl, c[2])
                if ea and eb:
                    ka, kb_ = classify_vec(cx, ea[1]), classify_vec(cx, eb[1])
                    val = (c[0] == "Eq") if pol else (c[0] != "Eq")
                    found = ((ea[0], ka), (eb[0], kb_), be[1][val], be[1][not val])
                else:
                    # accumulator emptiness: len(acc) == 0
                    for x, y in ((c[1], c[2]), (c[2], c[1])):
                        ox = fl.origin(x)
                        if _const_int(y) == 0 and ox[0] == "call" and re.search(r"::len$", callee(ox[2])) and fl.feeds(ox[2]["args"][0]) & cx.acc:
                            val = (c[0] == "Eq") if pol else (c[0] != "Eq")
                            first_edges.add((i, be[1][val]))
            elif kind == "call":
                blk, ct = payload
                cal = callee(ct)
                if re.search(r"::is_empty$", cal) and ct["args"] and fl.feeds(ct["args"][0]) & cx.acc:
                    first_edges.add((i, be[1][pol]))
                else:
                    kbody = cg.bodies.get(cal)
                    if kbody is not None and not kbody.pub and cal.split("::")[0] == b.fn.split("::")[0]:
                        sm = summarise_check(kbody)
                        if sm and sm["pass"] in ("true", "false"):
                            sides = [_actual_side(cx, ct, s) for s in sm["sides"]]
                            if all(sides):
                                val = (sm["pass"] == "true") if pol else (sm["pass"] != "true")
                                found = (sides[0], sides[1], be[1][val], be[1][not val])
        elif t["k"] == "switch" and isinstance(t["on"], list):
            # `helper(..)?` / `match helper(..) { Ok(..) => .., Err(..) => .. }`: discriminant of a Result produced by a private checking helper
            found = _result_switch(cx, cg, i, t)
            if not found:
                fe = _option_none_edge(cx, i, t)
                if fe:
                    first_edges.add(fe)
        if not found:
            continue
        (da, ka), (db, kb_), agree_t, dis_t = found
        kinds = {ka[0] if ka else None, kb_[0] if kb_ else None}
        if "current" in kinds and (kinds & {"record", "accepted"}):
            rec_d, cur_d = (da, db) if (kb_ and kb_[0] == "current") else (db, da)
            test = {"block": i, "dims": (rec_d, cur_d), "agree": (i, agree_t), "disagree": dis_t}
            res["tests"].append(test)
            if (rec_d, cur_d) == (dim, dim):
                agree_edges.add((i, agree_t))
                disagree.append(dis_t)
                for k in (ka, kb_):
                    if k and k[0] == "record":
                        records.add(k[1])
            else:
                res["bad_dims"].append((rec_d, cur_d))
    assign_blocks = set()
    for l in records:
        assign_blocks |= record_assign_blocks(cx, l)
    res["good"] = bool(agree_edges)
    # every push lies behind an agree edge, a (re)definition of the reference from this block, or the accumulator-empty edge
    push_blocks = {i for i, _ in sites}
    for i, t in sites:
        r = fl.reach(starts[i], cut_edges=agree_edges | first_edges, cut_blocks=(assign_blocks | producers) - set(starts[i]), stop={i})
        if agree_edges and i not in r:
            res["guarded"] += 1
    # the disagree edge ends in an Err
    ok_b, err_b = result_exits(b)
    conc = {i for i, t in b.calls() if re.search(r"NativeFunctionCompiler>?::compile$", callee(t))}
    if disagree:
        good = True
        for d in disagree:
            r = fl.reach([d])
            errs = bool(r & err_b)
            maybe_ok = False
            for x in r:
                tt = b.blocks[x]["t"]
                if tt["k"] == "call" and tt["d"][0] == 0 and not callee(tt).endswith("from_residual"):
                    # the function's result is whatever this callee returns: an error exit only if the callee can only fail
                    kb2 = cg.bodies.get(callee(tt))
                    if kb2 is not None and always_err(kb2):
                        errs = True
                    else:
                        maybe_ok = True
            if (r & push_blocks) or (r & producers) or (r & ok_b) or (r & conc) or maybe_ok or not errs:
                good = False
        res["err_ok"] = good
    res["push_blocks"] = push_blocks
    return res


def _actual_side(cx, ct, side):
    """map a helper-summary side (param index, path) to (d, classification) at the call site"""
    i, path = side
    if i - 1 >= len(ct["args"]):
        return None
    a = ct["args"][i - 1]
    if path == ():
        e = extent(cx.fl, a)
        if not e:
            return None
        return e[0], classify_vec(cx, e[1])
    if len(path) == 1:
        return path[0], classify_vec(cx, a)
    if path[0] == "shape":
        k = classify_value(cx, a)
        return path[1], ((k,) if k else None)
    return None


def _option_none_edge(cx, i, t):
    """`acc.first()` / `.last()` / `.get(k)` is None: nothing has been accepted yet"""
    fl = cx.fl
    ds = fl.live_defs(t["on"][0])
    if len(ds) != 1 or ds[0][1].get("rk") != "discr":
        return None
    o = fl.origin(ds[0][1]["src"][0], through_calls=False)
    if o[0] == "call" and re.search(r"::(first|last|get|first_mut|last_mut)$", callee(o[2])) and o[2]["args"] and "option::Option" in cx.b.locals[o[2]["d"][0]]:
        if fl.feeds(o[2]["args"][0]) & cx.acc:
            tg = dict((v, x) for v, x in t["targets"])
            if 0 in tg:
                return (i, tg[0])
            if 1 in tg and tg[1] != t["else"]:
                return (i, t["else"])
    return None


def _result_switch(cx, cg, i, t):
    fl, b = cx.fl, cx.b
    ds = fl.live_defs(t["on"][0])
    if len(ds) != 1 or ds[0][1].get("rk") != "discr":
        return None
    src = ds[0][1]["src"][0]
    o = fl.origin(src, through_calls=False)
    via_branch = False
    if o[0] == "call" and callee(o[2]).endswith("::branch") and o[2]["args"]:
        via_branch = True
        o = fl.origin(o[2]["args"][0], through_calls=False)
    if o[0] != "call":
        return None
    ct = o[2]
    cal = callee(ct)
    kbody = cg.bodies.get(cal)
    if kbody is None or kbody.pub or cal.split("::")[0] != b.fn.split("::")[0]:
        return None
    sm = summarise_check(kbody)
    if not sm or sm["pass"] != "ok":
        return None
    sides = [_actual_side(cx, ct, s) for s in sm["sides"]]
    if not all(sides):
        return None
    tg = dict((v, x) for v, x in t["targets"])
    # ControlFlow::Continue = 0 / Result::Ok = 0
    if 0 in tg:
        other = [x for v, x in t["targets"] if v != 0] or [t["else"]]
        return sides[0], sides[1], tg[0], other[0]
    if 1 in tg and tg[1] != t["else"]:
        return sides[0], sides[1], t["else"], tg[1]
    return None


def check_anchor(cg, anchor, dim, nfc):
    """all R1 verdicts for one entry function (path of its MIR body)"""
    ab = cg.bodies[anchor]
    afl = Flow(ab)
    helpers = private_callees(cg, anchor, depth=2)
    conc_rx = re.compile(r"<.*(^|::|\b)%s as .*NativeFunctionCompiler>::compile$" % nfc)

    def reaches_concat(f, depth=2):
        kb = cg.bodies.get(f)
        if kb is None or f not in helpers:
            return False
        for _, t in kb.calls():
            if conc_rx.search(callee(t)) or (depth > 1 and reaches_concat(callee(t), depth - 1)):
                return True
        return False
    conc = [(i, t, conc_rx.search(callee(t)) is not None) for i, t in ab.calls() if conc_rx.search(callee(t)) or reaches_concat(callee(t))]
    acc = None
    direct = [c for c in conc if c[2]]
    if direct and len(direct[0][1]["args"]) >= 2:
        acc = afl.base_local(direct[0][1]["args"][1])
    res = analyse(ab, dim, cg, acc_filter=acc)
    if not res["in_loop"] and acc is not None:
        res = analyse(ab, dim, cg)
    where_loop = [i for i, _ in res["pushes"]]
    gathered_in = anchor
    if not res["in_loop"]:
        # the loop was moved into a private helper: analyse it there, the call site stands for the loop
        for hf, hb in sorted(helpers.items()):
            r2 = analyse(hb, dim, cg)
            if r2["in_loop"]:
                res = r2
                gathered_in = hf
                where_loop = [i for i, t in ab.calls() if callee(t) == hf or (callee(t) in helpers and any(callee(t2) == hf for _, t2 in helpers[callee(t)].calls()))]
                break
    # the concatenation compiler runs after (and only after) the loop
    ok = bool(conc) and bool(where_loop)
    for ci, ct, _ in conc:
        for p in where_loop:
            if ci not in ab.reachable_from([p]) or p in ab.reachable_from([ci]) or loop_header(ab, ci) is not None:
                ok = False
    res["concat_after"] = ok
    res["gathered_in"] = gathered_in
    res["where"] = "%s (%s)" % (anchor, ab.where())
    return res


def run(F, rep, crate="mech_interpreter.lib"):
    cg = CallGraph(F, [crate])
    for fn, dim, nfc in (("matrix_row", 0, "MatrixHorzCat"), ("matrix", 1, "MatrixVertCat")):
        anchors = [f for f in cg.bodies if re.search(r"(^|::)structures::%s$" % fn, f)]
        if not rep.check(len(anchors) == 1, "C11-R1", "anchor:%s" % fn, "%s not found" % fn):
            continue
        res = check_anchor(cg, anchors[0], dim, nfc)
        where = res["where"]
        if not rep.check(res["in_loop"] >= 1, "C11-R1", "%s:block-loop" % fn, "%s: no loop that collects the blocks into a Vec<Value> was found (neither in it nor in a private helper it calls)" % fn, where):
            continue
        rep.check(res["forward"], "C11-R1", "%s:forward" % fn, "%s iterates its blocks in reverse" % fn, where)
        for rd, cd in sorted(set(res["bad_dims"])):
            rep.bad("C11-R1", "%s:compares-dimension-%d-%d" % (fn, rd, cd), "%s compares dimension [%d, %d] of the blocks, expected dimension %d on both sides" % (fn, rd, cd, dim), where)
        rep.check(res.get("good", False), "C11-R1", "%s:dimension-test" % fn,
                  "%s has no `shape[%d] == result.shape()[%d]` test before accepting a block" % (fn, dim, dim), where,
                  sample={"fn": fn, "dimension": dim, "analysed_in": res["gathered_in"], "tests": [{"dims": t["dims"], "block": t["block"]} for t in res["tests"]]})
        rep.check(res["err_ok"] is True, "C11-R1", "%s:mismatch-is-error" % fn, "%s: a block of a different size does not end in an Err" % fn, where)
        rep.check(res["guarded"] == res["in_loop"] and res["guarded"] > 0, "C11-R1", "%s:pushes-guarded" % fn,
                  "%s: a block is accepted outside the shape-test branches (%d of %d pushes guarded)" % (fn, res["guarded"], res["in_loop"]), where)
        rep.check(res["concat_after"], "C11-R1", "%s:concat-after-checks" % fn, "%s does not compile %s after (and only after) the block loop" % (fn, nfc), where)
        if res["gathered_in"] != anchors[0]:
            rep.note("C11-R1-followed-helper", {"fn": fn, "loop_in": res["gathered_in"]})
