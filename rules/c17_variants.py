"""C17-R10: transition variants the executor treats alike are treated alike everywhere in the state-machine evaluator.

The executor of a state machine (`apply_transitions`) has one arm per KIND of transition; variants that share an arm there (today `Next | Async`: both name the next
state) are the same thing for the run of the machine.  Every other `match` over `Transition` in the interpreter crate - in particular the validator that extracts the target
state of a transition and rejects an undeclared one - must not separate them: if it names one variant of such a group in an arm, the other variants of the group are
in the same arm (or all fall to the same catch-all).  Otherwise a transition that the executor takes is never validated (an `~>` to an undeclared state is entered).
The reference match is found by shape (the match over Transition with the most arms in the crate), the others by their scrutinee's patterns; no function names."""
import re
from lib.facts import walk, is_node


def _arm_variants(pat):
    """variants of enum Transition named by an arm pattern (through or-patterns); None for a catch-all / binding"""
    vs = set()
    for n in walk(pat):
        if is_node(n) and n[0] in ("pts", "ppath", "pstruct") and isinstance(n[1], str) and re.match(r"^(\w+::)*Transition::\w+$", n[1]):
            vs.add(n[1].split("::")[-1])
    return vs


def run(F, rep, crate="mech_interpreter.lib"):
    rid = "C17-R10"
    rep.rule(rid, "transition variants that share an arm in the executor (the match over Transition with the most arms) share an arm in every other match over Transition of the "
                  "interpreter: a variant the executor runs like its sibling is validated like its sibling")
    matches = []
    for it in F.syn(crate):
        if it.get("k") not in ("fn", "method") or not it.get("body"):
            continue
        for n in walk(it["body"]):
            if is_node(n) and n[0] == "match":
                arms = [_arm_variants(a[0]) for a in n[2]]
                if sum(1 for a in arms if a) >= 1:
                    matches.append((it["name"], arms))
    rep.floor(rid, "matches over Transition in the interpreter", len(matches), 2)
    if len(matches) < 2:
        return
    ref = max(matches, key=lambda m: sum(1 for a in m[1] if a))
    groups = [a for a in ref[1] if len(a) >= 2]
    rep.floor(rid, "variant groups sharing an arm in the executor", len(groups), 1)
    for fn, arms in matches:
        if (fn, arms) is ref or arms is ref[1]:
            continue
        for g in groups:
            where = {}
            for v in g:
                idx = next((i for i, a in enumerate(arms) if v in a), None)     # None = falls to the catch-all
                where[v] = idx
            ok = len(set(where.values())) == 1
            rep.check(ok, rid, "%s:%s" % (fn, "+".join(sorted(g))) if ok else "%s:%s:separated" % (fn, "+".join(sorted(g))),
                      "%s() separates the transition variants %s, which the executor %s() runs through one arm: %s - a transition of the variant that falls out is executed but "
                      "not handled here (for the target validator: an undeclared target state is entered instead of rejected)" % (
                          fn, sorted(g), ref[0], ", ".join("%s -> %s" % (v, "catch-all" if i is None else "arm %d" % i) for v, i in sorted(where.items()))),
                      "%s (%s)" % (fn, crate), sample={"fn": fn, "group": sorted(g)})
