"""Functions whose per-variant arms are siblings (K2). collect(F) -> [(key, {variant: normalised arm}, where)]"""
import re
from lib.facts import find, is_node, path_of, render
from lib import k2
from lib import fxn as X

TARGETS = [
    # (crate, self type or None, fn name, enum prefix, property)
    ("mech_core.lib", "Value", "as_index", "Value", "C03"),
    ("mech_core.lib", "Value", "as_vecusize", "Value", "C03"),
    ("mech_core.lib", "Value", "as_usize", "Value", "C03"),
    ("mech_core.lib", "Value", "kind", "Value", "C01"),
    ("mech_core.lib", "Value", "shape", "Value", "C01"),
    ("mech_core.lib", "Value", "is_matrix", "Value", "C01"),
    ("mech_core.lib", "Value", "is_scalar", "Value", "C01"),
    ("mech_core.lib", "Value", "convert_to", "Value", "C12"),
    ("mech_core.lib", "Value", "from_kind", "ValueKind", "C12"),
    ("mech_core.lib", "Value", "size_of", "Value", "C06"),
    ("mech_core.lib", "Value", "write_le", "Value", "C06"),
    ("mech_core.lib", "Value", "compile_const", "Value", "C06"),
    ("mech_core.lib", "ValueKind", "align", "ValueKind", "C06"),
    ("mech_interpreter.lib", None, "negated", "Value", "C13"),
]


def collect(F, prop=None):
    out = []
    for crate, slf, fn, enum, pr in TARGETS:
        if prop and pr != prop:
            continue
        for it in F.syn(crate):
            if it.get("name") != fn:
                continue
            if slf is None and it["k"] != "fn":
                continue
            if slf is not None and (it["k"] != "method" or X.type_head(it["self"]) != slf):
                continue
            best = None
            for m in find(it["body"], "match"):
                part = k2.arm_partition(m, enum)
                if len(part) >= 6 and (best is None or len(part) > len(best)):
                    best = part
            if best:
                key = "%s::%s" % (slf, fn) if slf else fn
                if any(k == key for k, _, _ in out):
                    key += "#%s" % (it.get("trait") or "")
                out.append((key, best, "%s (%s)" % (key, crate)))
    return out


def run_k2(F, rep, prop, rule, semantic=None):
    """arm the frozen sibling partitions of this property's targets.
    semantic(key, part) -> {variant: behaviour text} or None: an optional decision procedure that classifies the arms by what they COMPUTE (e.g. concrete evaluation
    over a finite table) instead of by their text; where it decides every arm, its partition is compared with the frozen one, so an arm rewritten in another but
    equivalent form (iterator pipeline -> counted loop) is still a sibling, and an arm that computes something else is still deviant."""
    rep.rule(rule, "deviant sibling (K2): per-variant arms of the listed functions keep their frozen co-classification (one arm edited differently from its siblings is reported)")
    got = collect(F, prop)
    ref = k2.load_ref()
    want = len([t for t in TARGETS if t[4] == prop and (("%s::%s" % (t[1], t[2])) if t[1] else t[2]) in ref])
    for key, part, where in got:
        if key in k2.load_ref():
            sem = semantic(key, part) if semantic else None
            k2.check(rep, rule, key, sem if sem is not None else part, where)
    rep.floor(rule, "sibling-partition targets found", len([g for g in got if g[0] in k2.load_ref()]), want)
