"""C14 — sets: set-operator routing down to the IndexSet method with (lhs receiver, rhs argument), operand positions preserved in
every dispatch step, size bookkeeping after every mutation, Hash arms per Value variant, kind test on literals.

Roles are decided by provenance, never by the spelling of a local: a kernel's operands are the `self.<field>` a local was taken from (through named
locals and through private helpers, which are inlined: lib/synroles.py), operand positions come from `arguments[i]` / parameter order followed through
`let`s and pattern bindings, the literal kind test is followed through private helpers of the evaluator on the MIR (lib/mircalls.py)."""
import re
from collections import defaultdict
from lib.facts import CallGraph, find, walk, is_node, path_of, render, render_pat, last_seg
from lib import fxn as X
from lib import synroles as SR
from lib.mirq import result_exits
from lib.mircalls import Through, error_exits_fed_by, callee_name
from rules.c14b import (kernel_views, bool_function, generator_source_per_environment, membership_complement, scratch_env_fresh,
                        result_kind_from_result, kind_guard_mirrored)

TECHNIQUE = ("operator token -> native compiler -> dispatcher -> kernel chain for the set operators with an IndexSet-method oracle and operand-position "
             "provenance at every hop (including or-pattern arms of the reference-unwrapping fallbacks); statement-order pairing of set mutations with the "
             "size update; arm-by-arm classification of Hash for Value; MIR dominance of the literal kind test; private helpers are followed (inlined on the "
             "syntax side, summarised on the MIR side) and named locals / constants are replaced by their initialisers before a role is decided")
EXPLANATION = (
    "Decides structural clauses of C14: (R3) the struct reached from each set operator calls exactly the IndexSet method of that meaning with the left "
    "operand as receiver and the right operand as argument (proper sub/superset = the relation plus a strict size comparison; membership = contains on the "
    "set operand with the element operand), and every hop on the way (NativeFunctionCompiler::compile including its MutableReference fallback arms, the "
    "dispatcher, the factory) hands the first operand on as first and the second as second; (R2) every body that mutates a MechSet's `set` assigns "
    "`num_elements = set.len()` afterwards; (R1) Hash for Value hashes, per variant, the payload through one of the closed idioms and has no self-recursive "
    "arm; (R4) the set literal evaluator compares every element's kind with the first and exits with Err before constructing the set. Not decided: "
    "Hash/Eq agreement on values (+-0.0, NaN), comprehension semantics."
    " (R5) a comprehension generator's source expression is evaluated once per binding environment, unconditionally inside the loop over the environments."
    ' (R6) over (kinds equal, set contains element) the ∈ kernel is `kinds equal AND contains` and the ∉ kernel is its exact negation.'
    ' (R7) each generator element is matched against its own scratch environment (declared inside the element loop), so bindings of a match that fails part-way cannot constrain the next element.'
    " (R8) the kind of a binary set operator's result is read from the result's own elements, never copied from an operand; (R9) a kind test under which a set kernel refills its cleared output is applied, with an Err, by the function that builds the kernel (no silent empty result)."
    " (R10) scope forwarding: every evaluator that receives the local environment (the generator and qualifier variables of a comprehension) hands it to every sub-evaluator; none passes the literal None in the environment position (the body of a comprehension would be evaluated against the globals)."
)

ORACLE = {
    "SetOp::Union": ("union", None), "SetOp::Intersection": ("intersection", None), "SetOp::Difference": ("difference", None),
    "SetOp::SymmetricDifference": ("symmetric_difference", None), "SetOp::Subset": ("is_subset", None), "SetOp::Superset": ("is_superset", None),
    "SetOp::ProperSubset": ("is_subset", "<"), "SetOp::ProperSuperset": ("is_superset", ">"),
    "SetOp::ElementOf": ("contains", None), "SetOp::NotElementOf": ("contains", "!"),
}
MUTATORS = {"insert", "extend", "clear", "shift_remove", "swap_remove", "remove", "retain", "push", "append", "drain", "truncate", "pop", "shift_insert", "insert_full", "sort"}
FLIP = {"<": ">", ">": "<", "<=": ">=", ">=": "<="}


# ---------------------------------------------------------------------------------------------------------------- operand positions
class Positions:
    """Scoped evaluation of "which operand position does this expression carry": a position set per name, started from the parameters (parameter i -> {i},
    or for a slice/Vec parameter `args`: `args[i]` / `args.get(i)` -> {i}), pushed through `let`s, tuple / slice / or-patterns of `match`, `if let`,
    `while let`, `for` and closure parameters.  Shadowing (`match (lhs, rhs) { (Value::Set(lhs), ..) => ..}`) is handled by scoping, so no name is special."""
    ARGV = "argv"

    def __init__(self, sink):
        self.sink = sink            # sink(node, scope, alt_pattern): called for every call / struct node

    def val(self, e, scope):
        """abstract value of an expression: a frozenset of operand positions, ARGV (the argument vector itself) or ("T", [component values]) for a tuple"""
        if not isinstance(e, list):
            return frozenset()
        if not is_node(e):
            out = frozenset()
            for x in e:
                out |= self.flat(self.val(x, scope))
            return out
        t = e[0]
        if t == "path":
            v = scope.get(e[1])
            return v if v is not None else frozenset()
        if t == "tuple":
            return ("T", [self.val(x, scope) for x in e[1]])
        if t in ("ref", "rawaddr"):
            return self.val(e[2], scope)
        if t == "un" and e[1] == "*":
            return self.val(e[2], scope)
        if t == "cast":
            return self.val(e[1], scope)
        if t == "try":
            return self.val(e[1], scope)
        if t == "field":
            v = self.val(e[1], scope)
            if isinstance(v, tuple) and re.match(r"^\d+$", str(e[2])) and int(e[2]) < len(v[1]):
                return v[1][int(e[2])]
            return self.flat(v)
        if t == "index":
            base = self.val(e[1], scope)
            if base == self.ARGV:
                if is_node(e[2]) and e[2][0] == "int":
                    return frozenset([int(e[2][1])])
                return frozenset()
            return self.flat(base) | self.flat(self.val(e[2], scope))
        if t == "mcall":
            base = self.val(e[1], scope)
            if base == self.ARGV:
                if e[2] in ("get", "get_unchecked", "get_mut") and e[4] and is_node(e[4][0]) and e[4][0][0] == "int":
                    return frozenset([int(e[4][0][1])])
                if e[2] == "first":
                    return frozenset([0])
                if e[2] in ("clone", "iter", "as_slice", "to_vec", "as_ref", "borrow", "deref"):
                    return self.ARGV
                return frozenset()
            if isinstance(base, tuple) and e[2] in ("clone", "to_owned") and not e[4]:
                return base
            out = self.flat(base)
            for a in e[4]:
                out |= self.flat(self.val(a, scope))
            return out
        if t in ("block", "unsafe") and e[1] and e[1][-1][0] == "expr" and not e[1][-1][2] and all(st[0] != "let" for st in e[1][:-1]):
            return self.val(e[1][-1][1], scope)
        if t in ("macro", "closure"):
            return frozenset()
        out = frozenset()
        for x in e[1:]:
            if isinstance(x, list):
                out |= self.flat(self.val(x, scope))
        return out

    def flat(self, v):
        if isinstance(v, tuple):
            out = frozenset()
            for c in v[1]:
                out |= self.flat(c)
            return out
        if v == self.ARGV or v is None:
            return frozenset()
        return v

    def pos(self, e, scope):
        return set(self.flat(self.val(e, scope))) if e is not None else set()

    def bind(self, pat, e, scope, v=None):
        """{binder: abstract value} for matching pattern `pat` against expression `e` (or against an already evaluated value `v`)"""
        out = {}
        while is_node(pat) and pat[0] in ("ptype", "pref"):
            pat = pat[1] if pat[0] == "ptype" else pat[2]
        if not is_node(pat):
            return out
        if v is None:
            v = self.val(e, scope) if e is not None else frozenset()
        if pat[0] == "ptuple" and isinstance(v, tuple) and len(v[1]) == len(pat[1]):
            for a, b in zip(pat[1], v[1]):
                out.update(self.bind(a, None, scope, b))
            return out
        if pat[0] == "pslice" and v == self.ARGV:
            for i, a in enumerate(pat[1]):
                for b in SR.pat_binders(a):
                    out[b] = frozenset([i])
            return out
        if pat[0] == "pident" and not re.match(r"^[A-Z]", pat[1]):
            out[pat[1]] = v
            if len(pat) > 4 and pat[4] is not None:
                out.update(self.bind(pat[4], None, scope, v))
            return out
        fv = self.flat(v)
        for b in SR.pat_binders(pat):
            out[b] = fv
        return out

    def alts(self, pat):
        while is_node(pat) and pat[0] in ("ptype",):
            pat = pat[1]
        return pat[1] if is_node(pat) and pat[0] == "por" else [pat]

    def run(self, stmts, scope, alt=None):
        scope = dict(scope)
        for st in stmts:
            if not is_node(st):
                continue
            if st[0] == "let":
                if len(st) > 2 and st[2] is not None:
                    self.visit(st[2], scope, alt)
                    scope.update(self.bind(st[1], st[2], scope))
                    if len(st) > 3 and st[3] is not None:
                        self.visit(st[3], scope, alt)
                else:
                    for b in SR.pat_binders(st[1]):
                        scope[b] = frozenset()
            elif st[0] == "expr":
                self.visit(st[1], scope, alt)
            elif st[0] == "item":
                pass
            else:
                self.visit(st, scope, alt)

    def _cond(self, c, scope, alt):
        """scope inside the then-branch / loop body of a condition that may hold `let` bindings (`if let P = e`, `a && let P = e`)"""
        sc = dict(scope)
        for n in walk(c):
            if n[0] == "letc":
                sc.update(self.bind(n[1], n[2], scope))
        self.visit(c, scope, alt)
        return sc

    def visit(self, e, scope, alt=None):
        if not isinstance(e, list):
            return
        if not is_node(e):
            if e and all(is_node(y) and y[0] in ("let", "expr", "item") for y in e):
                self.run(e, scope, alt)
            else:
                for x in e:
                    self.visit(x, scope, alt)
            return
        t = e[0]
        if t == "match":
            self.visit(e[1], scope, alt)
            for arm in e[2]:
                for a in self.alts(arm[0]):
                    sc = dict(scope)
                    sc.update(self.bind(a, e[1], scope))
                    a2 = a          # the innermost arm (one alternative of an or-pattern at a time) names the site
                    if arm[1] is not None:
                        self.visit(arm[1], sc, a2)
                    self.visit(arm[2], sc, a2)
            return
        if t == "if":
            sc = self._cond(e[1], scope, alt)
            self.run(e[2], sc, alt)
            if e[3] is not None:
                self.visit(e[3], scope, alt)
            return
        if t == "while":
            sc = self._cond(e[1], scope, alt)
            self.run(e[2], sc, alt)
            return
        if t == "for":
            self.visit(e[2], scope, alt)
            sc = dict(scope)
            sc.update(self.bind(e[1], e[2], scope))
            self.run(e[3], sc, alt)
            return
        if t in ("block", "unsafe", "loop"):
            self.run(e[1], scope, alt)
            return
        if t == "closure":
            sc = dict(scope)
            for p in e[1]:
                for b in SR.pat_binders(p):
                    sc[b] = frozenset()
            self.visit(e[2], sc, alt)
            return
        if t in ("call", "struct", "mcall"):
            self.sink(e, scope, alt)
        if t == "macro":
            return
        for x in e[1:]:
            if isinstance(x, list):
                self.visit(x, scope, alt)


def param_scope(it):
    """initial scope of a function: parameter i -> {i}; a single slice / Vec parameter of Values -> the argument vector"""
    sc = {}
    ins = [p for p in it["sig"]["inputs"] if p[0] != "self"]
    i = 0
    for p in ins:
        if not is_node(p[0]):
            continue
        ty = re.sub(r"\s", "", p[1] or "")
        for b in SR.pat_binders(p[0]):
            if re.search(r"^&(mut)?(Vec<Value>|\[Value\])$", ty):
                sc[b] = Positions.ARGV
            else:
                sc[b] = frozenset([i])
        i += 1
    return sc


def builders_of(crate, struct_name):
    """functions of the crate that construct `struct_name` (directly, or by calling one that does): the dispatcher role"""
    direct = []
    cands = [f for lst in crate.fns.values() for f in lst] + [m for lst in crate.methods.values() for m in lst if not m.get("trait")]
    for f in cands:
        if any(last_seg(s[1]) == struct_name for s in find(f["body"], "struct")):
            direct.append(f)
    ids = {id(f) for f in direct}
    return direct, ids


def hop_check(rep, rule, crate, comp_item, builder_ids, label, where, struct_name=None, first=None, second=None):
    """every call of the dispatcher inside NativeFunctionCompiler::compile (the direct attempt and every fallback arm) receives a value built from the first
    operand first and one built from the second operand second"""
    body, _ = SR.inline(comp_item, crate, depth=2, only=lambda h: id(h) not in builder_ids)
    n = [0]

    def sink(node, scope, alt):
        if node[0] == "struct" and struct_name is not None and last_seg(node[1]) == struct_name:
            # the dispatcher was inlined into compile(): the kernel is built right here, its operand fields are the hop
            init = {f[0]: f[1] for f in node[2]}
            got = [P.pos(init.get(first), scope), P.pos(init.get(second), scope)]
            rep.check(got[0] == {0} and got[1] == {1}, rule, "%s:dispatcher-binds-in-order" % struct_name,
                      "%s builds %s with %s from operand %s and %s from operand %s" % (label, struct_name, first, sorted(got[0]), second, sorted(got[1])), where)
        elif node[0] == "call" and len(node[2]) == 2:
            h = crate.resolve_call(node, comp_item)
            if h is None or id(h) not in builder_ids:
                return
            got = [P.pos(a, scope) for a in node[2]]
        else:
            return
        n[0] += 1
        if not got[0] or not got[1]:
            rep.note("undecided", "%s: operand provenance of `%s` not followed to the argument vector" % (label, render(node)[:80]))
            return
        ok = got[0] == {0} and got[1] == {1}
        shown = SR.pat_shape(alt)[:60] if alt is not None else "direct"
        rep.check(ok, rule, "%s:%s" % (label, "operands-in-order") if ok else "%s:operands-swapped:%s" % (label, shown),
                  "%s: %s the dispatcher call `%s` receives its operands in positions %s instead of (first, second): the operator is applied to swapped operands for this storage-form combination" % (
                      label, ("in the arm `%s`" % render_pat(alt)[:100]) if alt is not None else "outside the fallback arms", render(node)[:90], [sorted(g) for g in got]), where)
    P = Positions(sink)
    P.run(body, param_scope(comp_item))
    # how are MutableReference operands looked through?  per operand (`match arguments[0] { MutableReference(r) => .., v => v }`: ONE forwarding site then serves
    # every storage-form combination) or per combination (tuple patterns: one site per combination)
    per_operand = 0
    for n_ in walk(body):
        pats = [a[0] for a in n_[2]] if n_[0] == "match" else [n_[1]] if n_[0] == "letc" else []
        for p in pats:
            alts = p[1] if is_node(p) and p[0] == "por" else [p]
            if any(is_node(a) and a[0] == "pts" and last_seg(a[1]) == "MutableReference" for a in alts):
                per_operand += 1
    return n[0], per_operand


def dispatcher_check(rep, rule, crate, builder, struct_name, first, second, where_crate):
    body, _ = SR.inline(builder, crate, depth=2)
    res = []

    def sink(node, scope, alt):
        if node[0] != "struct" or last_seg(node[1]) != struct_name:
            return
        init = {f[0]: f[1] for f in node[2]}
        res.append((P.pos(init.get(first), scope), P.pos(init.get(second), scope)))
    P = Positions(sink)
    P.run(body, param_scope(builder))
    for p1, p2 in res:
        rep.check(p1 == {0} and p2 == {1}, rule, "%s:dispatcher-binds-in-order" % struct_name,
                  "%s builds %s with %s from operand %s and %s from operand %s" % (builder["name"], struct_name, first, sorted(p1), second, sorted(p2)), "%s (%s)" % (builder["name"], where_crate))
    return len(res)


# ---------------------------------------------------------------------------------------------------------------- run
def run(F, rep, tier):
    # R10: comprehension variables stay visible - every evaluator of the interpreter that receives the local environment forwards it (rules/scope_forward.py)
    from rules import scope_forward
    _nc, _ns = scope_forward.run(F, rep, "C14-R10")
    rep.floor("C14-R10", "evaluators that receive the local environment", _nc, 25)
    rep.floor("C14-R10", "sub-evaluator calls with an environment position", _ns, 80)
    rep.rule("C14-R1", "Hash for Value: every variant hashes its payload through a closed idiom; no self-recursive arm")
    rep.rule("C14-R2", "every mutation of MechSet.set is followed by num_elements = set.len()")
    rep.rule("C14-R3", "set operators reach the IndexSet method of that meaning with (lhs receiver, rhs argument); operand positions preserved at every hop")
    rep.rule("C14-R4", "set literals: element kind test with Err exit before construction")
    from rules.c01 import term_routing
    routing = term_routing(F)
    crate = "mech_set.lib"
    items = F.syn(crate)
    CR = SR.Crate(items)
    views = kernel_views(CR)
    S = X.load_fxn_structs(F, [crate])
    by_name = {fs.name: fs for fs in S.values()}
    cg = CallGraph(F, [crate, "mech_core.lib"])
    n_ops = 0
    for var, (method, extra) in sorted(ORACLE.items()):
        nfcs = routing.get(var, set())
        if not rep.check(len(nfcs) == 1, "C14-R3", "route:%s" % var, "set operator %s is routed to %s in term()" % (var, sorted(nfcs))):
            continue
        nfc = sorted(nfcs)[0]
        root = [f for f in cg.bodies if re.match(r"<.*::%s as mech_core::functions::NativeFunctionCompiler>::compile$" % re.escape(nfc), f)]
        if not rep.check(len(root) == 1, "C14-R3", "nfc:%s" % nfc, "native compiler %s not found" % nfc):
            continue
        reach = cg.reach(root)
        structs = set()
        for f in reach:
            b = cg.bodies.get(f)
            if b and (f in root or not re.match(r"^<.* as ", f)):      # the compiler itself may build the kernel (dispatcher inlined); other trait impls are not on the route
                for i, s in b.aggs():
                    nm = s["adt"].split("::")[-1]
                    if nm in by_name and s["adt"].startswith("mech_set"):
                        structs.add(nm)
        if not rep.check(len(structs) == 1, "C14-R3", "%s:one-kernel" % nfc, "%s reaches %s kernels" % (nfc, sorted(structs))):
            continue
        n_ops += 1
        fs = by_name[sorted(structs)[0]]
        view = views.get(fs.name)
        fields = [f[0] for f in fs.fields]
        first, second = fields[0], fields[1]
        why = None
        if view is None:
            why = "solve() not found"
        else:
            field_of = view.fields_of
            calls = [m for m in find(view.body, "mcall") if m[2] == method and len(m[4]) == 1]
            if len(calls) != 1:
                why = "expected one call of IndexSet::%s, found %d" % (method, len(calls))
            else:
                m = calls[0]
                recv, arg = field_of(m[1]), field_of(m[4][0])
                if method == "contains":
                    # element is the first operand, the set the second
                    if recv != {second} or arg != {first}:
                        why = "membership is tested as %s.contains(%s); expected <second operand: the set>.contains(<first operand: the element>)" % (sorted(recv), sorted(arg))
                elif recv != {first} or arg != {second}:
                    why = "calls %s.%s(%s); expected %s.%s(%s)" % (sorted(recv), method, sorted(arg), first, method, second)
                if why is None and extra in ("<", ">"):
                    good = False
                    for b in find(view.body, "bin"):
                        if b[1] not in (extra, FLIP[extra]) or not re.search(r"\blen\b|num_elements", render(view.env.expand(b))):
                            continue
                        l, r = (b[2], b[3]) if b[1] == extra else (b[3], b[2])
                        if field_of(l) == {first} and field_of(r) == {second}:
                            good = True
                    if not good:
                        why = "proper relation lacks the strict size comparison len(%s) %s len(%s)" % (first, extra, second)
                if why is None and method == "contains":
                    table = bool_function(view)
                    if table is not None and None not in table.values():
                        negated = (table[(True, True)] is False and table[(True, False)] is True)
                        plain = (table[(True, True)] is True and table[(True, False)] is False)
                    else:
                        # not interpretable: fall back to the syntactic form (a `!` applied to an expression that holds the contains call)
                        negated = any(u[1] == "!" and any(c_[2] == "contains" for c_ in find(view.env.expand(u[2]), "mcall")) for u in find(view.body, "un"))
                        plain = not negated
                    if extra == "!" and not negated:
                        why = "negated membership does not negate the contains result"
                    if extra is None and not plain:
                        why = "membership result is negated"
        rep.check(why is None, "C14-R3", "%s:%s" % (var, fs.name), "%s (operator %s): %s" % (fs.name, var, why), "%s (%s)" % (fs.name, crate),
                  sample={"operator": var, "compiler": nfc, "kernel": fs.name, "method": method})
        # hops: NFC::compile (direct attempt + fallback arms) and dispatcher
        builders, builder_ids = builders_of(CR, fs.name)
        comp = [it for it in items if it["k"] == "method" and it["name"] == "compile" and it["trait"] and last_seg(it["trait"]) == "NativeFunctionCompiler" and X.type_head(it["self"]) == nfc]
        commutative = method in ("union", "intersection", "symmetric_difference")
        if not commutative:
            npos = unwrap = 0
            for it in comp:
                a_, b_ = hop_check(rep, "C14-R3", CR, it, builder_ids, "%s::compile" % nfc, "%s::compile (%s)" % (nfc, crate), fs.name, first, second)
                npos += a_
                unwrap += b_
            # one site per storage-form combination (at least the direct one and a fallback) - or a single site behind per-operand reference unwrapping
            rep.floor("C14-R3", "operand-forwarding arms in %s::compile" % nfc, npos, 1 if unwrap >= 2 else 2)
        # dispatcher: fn x_fxn(lhs, rhs) -> struct {first: lhs.., second: rhs..}
        for b in builders:
            dispatcher_check(rep, "C14-R3", CR, b, fs.name, first, second, crate)
    rep.floor("C14-R3", "set operators followed to their kernel", n_ops, 9)

    rule_r2(F, rep)
    rule_r1(F, rep)
    rule_r4(F, rep)

    generator_source_per_environment(F, rep)
    membership_complement(F, rep)
    scratch_env_fresh(F, rep, "C14-R7", {"comprehension_environments"}, 1)
    result_kind_from_result(F, rep)
    kind_guard_mirrored(F, rep)


# ---------------------------------------------------------------------------------------------------------------- R2 size pairing
def set_events(body, env):
    """in source order: ("mut", base, how, value) for every mutation of `<base>.set`, ("size", base, rhs) for every `<base>.num_elements = rhs`.
    `base` is the canonical text of the place after locals were replaced by what they stand for, so `result`, `out_ptr` and a helper's `target` parameter
    bound to it are the same base."""
    def base_of(e):
        return re.sub(r"\s+", "", render(SR.peel(env.expand(SR.peel(e)))))
    seq = []
    for n in walk(body):
        if n[0] == "mcall" and n[2] in MUTATORS and is_node(SR.peel(n[1])) and SR.peel(n[1])[0] == "field" and SR.peel(n[1])[2] == "set":
            seq.append(("mut", base_of(SR.peel(n[1])[1]), n[2], None))
        elif n[0] == "assign":
            l = SR.peel(n[1])
            if is_node(l) and l[0] == "field" and l[2] == "set":
                seq.append(("mut", base_of(l[1]), "=", n[2]))
            elif is_node(l) and l[0] == "field" and l[2] == "num_elements":
                seq.append(("size", base_of(l[1]), n[2]))
    return seq


def rule_r2(F, rep):
    n_mut = 0
    for c in ("mech_set.lib", "mech_core.lib", "mech_interpreter.lib"):
        items = F.syn(c)
        CR = SR.Crate(items)
        cand = [it for it in items if it.get("k") in ("fn", "method") and it.get("body") is not None]
        # cheap pre-filter: only bodies that touch a `.set` / `.num_elements` field themselves can matter, alone or as a helper
        touching = {id(it) for it in cand if any(f[2] in ("set", "num_elements") for f in find(it["body"], "field"))}
        names = {it["name"] for it in cand if id(it) in touching}
        inlined_into = defaultdict(int)
        work = []
        for it in cand:
            direct = id(it) in touching
            calls_helper = any((last_seg(path_of(x[1]) or "") in names) for x in find(it["body"], "call")) or any(x[2] in names and path_of(x[1]) == "self" for x in find(it["body"], "mcall"))
            if not (direct or calls_helper):
                continue
            body, used = SR.inline(it, CR, depth=2, only=lambda h: id(h) in touching or any(last_seg(path_of(x[1]) or "") in names for x in find(h["body"], "call")))
            for h in used:
                inlined_into[id(h)] += 1
            work.append((it, body))
        for it, body in work:
            env = SR.Env(body, CR)
            seq = set_events(body, env)
            muts = [i for i, s in enumerate(seq) if s[0] == "mut"]
            if not muts:
                continue
            name = "%s%s" % ((X.type_head(it["self"]) + "::") if it["k"] == "method" else "", it["name"])
            last = seq[muts[-1]]
            base = last[1]
            # a private helper whose only job is a part of its caller's update is judged where it is inlined, with the caller's statements around it
            if inlined_into.get(id(it)) and it.get("vis", "") == "" and not it.get("trait"):
                own = [s for s in seq[muts[-1] + 1:] if s[0] == "size" and s[1] == base]
                if not own:
                    rep.note("helper_judged_in_caller", "%s (%s): mutates a set; the size update is looked for in its %d caller(s)" % (name, c, inlined_into[id(it)]))
                    continue
            n_mut += 1

            def canon(e):
                return re.sub(r"\s+", "", render(SR.peel(env.expand(e))))

            def is_len_of_set(rhs):
                for m in find(env.expand(rhs), "mcall"):
                    if m[2] == "len" and not m[4]:
                        r = SR.peel(m[1])
                        if is_node(r) and r[0] == "field" and r[2] == "set" and re.sub(r"\s+", "", render(SR.peel(r[1]))) == base:
                            return True
                        # the size of the very value that was stored: `let n = merged.len(); out.set = merged; out.num_elements = n`
                        if last[2] == "=" and last[3] is not None and canon(m[1]) == canon(last[3]):
                            return True
                return False
            later = [s for s in seq[muts[-1] + 1:] if s[0] == "size" and s[1] == base and is_len_of_set(s[2])]
            rep.check(bool(later), "C14-R2", "%s:size-after-mutation" % name,
                      "%s mutates the `set` of `%s` (last: %s) and does not assign its `num_elements = set.len()` afterwards: the reported size goes stale" % (name, base[:60], last[2]),
                      "%s (%s)" % (name, c), sample={"fn": name, "mutations": [s[2] for s in seq if s[0] == "mut"]})
    rep.floor("C14-R2", "bodies mutating a MechSet", n_mut, 8)


# ---------------------------------------------------------------------------------------------------------------- R1 Hash for Value
def hash_calls(body, env, state_names):
    """receivers of every `<recv>.hash(<state>)` / `Hash::hash(<recv>, <state>)` in the body whose hasher argument is the function's hasher"""
    out = []
    for n in walk(body):
        recv = arg = None
        if n[0] == "mcall" and n[2] == "hash" and len(n[4]) == 1:
            recv, arg = n[1], n[4][0]
        elif n[0] == "call" and last_seg(path_of(n[1]) or "") == "hash" and len(n[2]) == 2:
            recv, arg = n[2][0], n[2][1]
        if recv is None:
            continue
        a = SR.peel(env.expand(arg))
        if path_of(a) in state_names:
            out.append(recv)
    return out


def payload_root(e, env):
    """the binder whose payload an expression hashes: strips borrows, derefs, `.borrow()`, `.to_bits()`, named locals"""
    e = env.expand(e)
    while True:
        e2 = SR.peel(e)
        if is_node(e2) and e2[0] == "mcall" and e2[2] in ("to_bits",) and not e2[4]:
            e2 = e2[1]
        if e2 is e:
            break
        e = e2
    return e


def rule_r1(F, rep):
    n_arms = 0
    items = F.syn("mech_core.lib")
    CR = SR.Crate(items)
    for it in items:
        if it["k"] == "method" and it["trait"] and last_seg(it["trait"]) == "Hash" and X.type_head(it["self"]) == "Value" and it["name"] == "hash":
            params = [p for p in it["sig"]["inputs"] if p[0] != "self" and is_node(p[0])]
            state_names = set()
            for p in params:
                state_names.update(SR.pat_binders(p[0]))
            body, _ = SR.inline(it, CR, depth=2, only=lambda h: h.get("mod") == it.get("mod") and not h.get("trait"))
            env = SR.Env(body, CR, params=state_names)
            for mt in find(body, "match"):
                if SR.peel(env.expand(mt[1])) != ["path", "self"]:
                    continue
                for arm in mt[2]:
                    alts = arm[0][1] if arm[0][0] == "por" else [arm[0]]
                    for p in alts:
                        while is_node(p) and p[0] == "pref":
                            p = p[2]
                        if p[0] not in ("pts", "ppath", "pstruct") and not (p[0] == "pident" and re.match(r"^[A-Z]", p[1])):
                            continue
                        var = p[1].split("::")[-1]
                        n_arms += 1
                        txt = render(arm[2])
                        binders = SR.pat_binders(p)
                        hashed = hash_calls(arm[2], env, state_names)
                        selfrec = not binders and any(re.search(r"^Value::%s\b" % re.escape(var), re.sub(r"\s+", "", render(SR.peel(env.expand(r))))) or SR.peel(env.expand(r)) == ["path", "self"] for r in hashed)
                        if selfrec:
                            rep.bad("C14-R1", "Value::%s:self-recursive-hash" % var, "Hash for Value::%s calls itself (`%s`): hashing such a value never terminates (stack overflow aborts the host)" % (var, txt[:60]), "src/core/src/value.rs")
                            continue
                        if re.search(r"todo!|unimplemented!|panic", txt):
                            rep.note("hash_arm_panics", "Value::%s => %s (an error, not a wrong set)" % (var, txt[:30]))
                            rep.ok("C14-R1", "Value::%s" % var)
                            continue
                        roots = [payload_root(r, env) for r in hashed]
                        ok = all(any(path_of(r) == b for r in roots) for b in binders) and (bool(binders) or bool(hashed))
                        rep.check(ok, "C14-R1", "Value::%s" % var, "Hash for Value::%s is `%s`: the payload is not hashed through a recognised idiom (x.hash / x.borrow().hash / to_bits)" % (var, txt[:80]), "src/core/src/value.rs",
                                  sample={"variant": var, "hash": txt[:60]})
    rep.floor("C14-R1", "Hash arms of Value", n_arms, 40)


# ---------------------------------------------------------------------------------------------------------------- R4 literal kind test (MIR)
CONSTRUCT = re.compile(r"NativeFunctionCompiler>::compile$|MechSet::from_vec$|MechSet::from_set$")


def _is_construct(body, i, blk):
    t = blk["t"]
    return t["k"] == "call" and bool(CONSTRUCT.search(callee_name(t)) or CONSTRUCT.search(t.get("tf", "")))


def _is_kind_cmp(body, i, blk):
    t = blk["t"]
    return t["k"] == "call" and bool(re.search(r"PartialEq(<.*>)?(>)?::(ne|eq)$", callee_name(t))) and "ValueKind" in " ".join(t.get("ga", []))


def _is_mismatch(body, i, blk):
    return any(s.get("rk") == "agg" and "SetKindMismatch" in s.get("adt", "") for s in blk["s"])


def literal_kind_test(th, body, depth, rep, top):
    """for every construction site of `body` (direct, or inside a private helper): a kind comparison that can exit with the kind-mismatch error comes first and the
    construction is not reachable once the mismatch error was raised.  Returns [(line, ok)] per construction site."""
    K = th.nodes(body, _is_kind_cmp, depth)
    M = th.nodes(body, _is_mismatch, depth)
    C = th.nodes(body, _is_construct, depth)
    ok_exits, err_exits = result_exits(body)

    def after_mismatch(m, h):
        if h is None:
            return [m]
        fed = error_exits_fed_by(body, m)
        if not fed:
            return [m]
        # the helper raised the error and handed it back: inside the helper nothing may follow the error but its return
        hk, hm = th.nodes(h, _is_kind_cmp, depth - 1), th.nodes(h, _is_mismatch, depth - 1)
        h_ok, _ = result_exits(h)
        for mm, hh in hm:
            if hh is None and any(x in h.reachable_from([mm]) for x in h_ok):
                return [m]          # the helper can still answer Ok after building the mismatch error: treat the caller's continuation as reachable from it
        return fed
    out = []
    for ci, ch in C:
        ct = body.blocks[ci]["t"]
        good = False
        for k, kh in K:
            fwd = body.reachable_from([k])
            if ci in fwd and k not in body.reachable_from([ci]) and ci != k:
                for m, mh in M:
                    if m not in fwd:
                        continue
                    if kh is not None and mh is not None and k == m:
                        # comparison and error live in the same helper: the error must be reachable from the comparison there
                        hk, hm = th.nodes(kh, _is_kind_cmp, depth - 1), th.nodes(kh, _is_mismatch, depth - 1)
                        if not any(mm in kh.reachable_from([kk]) for kk, _ in hk for mm, _ in hm):
                            continue
                    good = True
        clean = all(ci not in body.reachable_from(after_mismatch(m, mh)) for m, mh in M)
        if not (good and clean) and ch is not None and depth > 0:
            # the construction sits in a helper together with (maybe) its own test: judge it there
            inner = literal_kind_test(th, ch, depth - 1, rep, False)
            if inner and all(x[1] for x in inner):
                good = clean = True
        out.append((ct.get("l", body.line), good and clean))
    if top:
        return out, K, M, C
    return out


def rule_r4(F, rep):
    cgi = CallGraph(F, ["mech_interpreter.lib"])
    sb = cgi.bodies.get("mech_interpreter::structures::set")
    if rep.check(sb is not None, "C14-R4", "anchor:set", "set literal evaluator not found"):
        th = Through(cgi, sb, depth=2)
        res, K, M, C = literal_kind_test(th, sb, 2, rep, True)
        rep.check(bool(M), "C14-R4", "kind-mismatch-error-exists", "the set literal evaluator no longer raises a kind-mismatch error", sb.where())
        for line, ok in res:
            rep.check(ok, "C14-R4", "kind-test-precedes-construction",
                      "the set is constructed (line %d) without a preceding element-kind comparison that can exit with the kind-mismatch error" % line, "%s:%d" % (sb.file, line))
        rep.floor("C14-R4", "set construction sites in set()", len(C), 1)
        for i, h in K + M + C:
            if h is not None:
                rep.note("followed_into_helper", "%s -> %s" % (sb.fn, h.fn))
