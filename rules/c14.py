"""C14 — sets: set-operator routing down to the IndexSet method with (lhs receiver, rhs argument), operand positions preserved in
every dispatch step, size bookkeeping after every mutation, Hash arms per Value variant, kind test on literals."""
import re
from collections import defaultdict
from lib.facts import CallGraph, find, walk, is_node, path_of, render, render_stmt, render_pat, last_seg
from lib import fxn as X
from lib.mirq import calls_matching, result_exits

TECHNIQUE = ("operator token -> native compiler -> dispatcher -> kernel chain for the set operators with an IndexSet-method oracle and operand-position "
             "provenance at every hop (including or-pattern arms of the reference-unwrapping fallbacks); statement-order pairing of set mutations with the "
             "size update; arm-by-arm classification of Hash for Value; MIR dominance of the literal kind test")
EXPLANATION = (
    "Decides structural clauses of C14: (R3) the struct reached from each set operator calls exactly the IndexSet method of that meaning with the left "
    "operand as receiver and the right operand as argument (proper sub/superset = the relation plus a strict size comparison; membership = contains on the "
    "set operand with the element operand), and every hop on the way (NativeFunctionCompiler::compile including its MutableReference fallback arms, the "
    "dispatcher, the factory) hands the first operand on as first and the second as second; (R2) every body that mutates a MechSet's `set` assigns "
    "`num_elements = set.len()` afterwards; (R1) Hash for Value hashes, per variant, the payload through one of the closed idioms and has no self-recursive "
    "arm; (R4) the set literal evaluator compares every element's kind with the first and exits with Err before constructing the set. Not decided: "
    "Hash/Eq agreement on values (+-0.0, NaN), comprehension semantics."
    " (R5) a comprehension generator's source expression is evaluated once per binding environment, unconditionally inside the loop over the environments."
    ' (R6) over (kinds equal, set contains element) the ∈ kernel is `kinds equal AND contains` and the ∉ kernel is its exact negation.'
    ' (R7) each generator element is matched against its own scratch environment (declared inside the element loop), so bindings of a match that fails part-way cannot constrain the next element.'
    " (R8) the kind of a binary set operator's result is read from the result's own elements, never copied from an operand; (R9) a kind test under which a set kernel refills its cleared output is applied, with an Err, by the function that builds the kernel (no silent empty result)."
)

ORACLE = {
    "SetOp::Union": ("union", None), "SetOp::Intersection": ("intersection", None), "SetOp::Difference": ("difference", None),
    "SetOp::SymmetricDifference": ("symmetric_difference", None), "SetOp::Subset": ("is_subset", None), "SetOp::Superset": ("is_superset", None),
    "SetOp::ProperSubset": ("is_subset", "<"), "SetOp::ProperSuperset": ("is_superset", ">"),
    "SetOp::ElementOf": ("contains", None), "SetOp::NotElementOf": ("contains", "!"),
}
MUTATORS = {"insert", "extend", "clear", "shift_remove", "swap_remove", "remove", "retain", "push", "append", "drain", "truncate", "pop", "shift_insert", "insert_full", "sort"}


def positional_args(rep, rule, where, arm_pat, body, callee_rx, label):
    """in a match arm over a 2-tuple, the call to the dispatcher must receive a value built from the first component first"""
    alts = arm_pat[1] if arm_pat[0] == "por" else [arm_pat]
    n = 0
    for alt in alts:
        if alt[0] != "ptuple" or len(alt[1]) != 2:
            continue
        pos = {}
        for i, comp in enumerate(alt[1]):
            for b in find(comp, "pident"):
                pos[b[1]] = i
        # locals derived from a positional operand (leftmost operand name of the initialiser, e.g. rhs.convert_to(&lhs.kind()))
        for node in list(find(body, "letc")) + [l for l in find(body, "let") if len(l) == 4]:
            init = node[2]
            if init is None:
                continue
            names = [x[1] for x in find(init, "path") if x[1] in pos]
            if names:
                for b in find(node[1], "pident"):
                    pos.setdefault(b[1], pos[names[0]])
        for c in find(body, "call"):
            p = path_of(c[1])
            if not p or not re.search(callee_rx, p) or len(c[2]) != 2:
                continue
            n += 1
            got = []
            for a in c[2]:
                names = [x[1] for x in find(a, "path") if x[1] in pos]
                got.append({pos[x] for x in names})
            ok = got[0] == {0} and got[1] == {1}
            rep.check(ok, rule, "%s:%s" % (label, "operands-in-order") if ok else "%s:operands-swapped:%s" % (label, re.sub(r"\s+", "", render_pat(alt))[:60]),
                      "%s: in the arm `%s` the dispatcher call `%s` receives its operands in positions %s instead of (first, second): the operator is applied to swapped operands for this storage-form combination" % (
                          label, render_pat(alt)[:100], render(c)[:90], [sorted(g) for g in got]), where)
    return n


def run(F, rep, tier):
    rep.rule("C14-R1", "Hash for Value: every variant hashes its payload through a closed idiom; no self-recursive arm")
    rep.rule("C14-R2", "every mutation of MechSet.set is followed by num_elements = set.len()")
    rep.rule("C14-R3", "set operators reach the IndexSet method of that meaning with (lhs receiver, rhs argument); operand positions preserved at every hop")
    rep.rule("C14-R4", "set literals: element kind test with Err exit before construction")
    from rules.c01 import term_routing
    routing = term_routing(F)
    crate = "mech_set.lib"
    items = F.syn(crate)
    S = X.load_fxn_structs(F, [crate])
    by_name = {fs.name: fs for fs in S.values()}
    cg = CallGraph(F, [crate, "mech_core.lib"])
    n_ops = 0
    for var, (method, extra) in sorted(ORACLE.items()):
        nfcs = routing.get(var, set())
        if not rep.check(len(nfcs) == 1, "C14-R3", "route:%s" % var, "set operator %s is routed to %s in term()" % (var, sorted(nfcs))):
            continue
        nfc = sorted(nfcs)[0]
        root = [f for f in cg.bodies if re.match(r"<.*::%s as mech_core::functions::NativeFunctionCompiler>::compile$" % re.escape(nfc), f)]
        if not rep.check(len(root) == 1, "C14-R3", "nfc:%s" % nfc, "native compiler %s not found" % nfc):
            continue
        reach = cg.reach(root)
        structs = set()
        for f in reach:
            b = cg.bodies.get(f)
            if b and not re.match(r"^<.* as ", f):
                for i, s in b.aggs():
                    nm = s["adt"].split("::")[-1]
                    if nm in by_name and s["adt"].startswith("mech_set"):
                        structs.add(nm)
        if not rep.check(len(structs) == 1, "C14-R3", "%s:one-kernel" % nfc, "%s reaches %s kernels" % (nfc, sorted(structs))):
            continue
        n_ops += 1
        fs = by_name[sorted(structs)[0]]
        # local alias -> field
        alias = {}
        for st in find(fs.solve, "let"):
            if len(st) == 4 and st[2] is not None:
                for fa in find(st[2], "field"):
                    if path_of(fa[1]) == "self":
                        for p in find(st[1], "pident"):
                            alias[p[1]] = fa[2]
        fields = [f[0] for f in fs.fields]
        first, second = fields[0], fields[1]

        def field_of(e):
            names = [alias.get(x[1]) for x in find(e, "path") if x[1] in alias]
            names += [fa[2] for fa in find(e, "field") if path_of(fa[1]) == "self"]
            return {n for n in names if n}
        calls = [m for m in find(fs.solve, "mcall") if m[2] == method and len(m[4]) == 1]
        why = None
        if len(calls) != 1:
            why = "expected one call of IndexSet::%s, found %d" % (method, len(calls))
        else:
            m = calls[0]
            recv, arg = field_of(m[1]), field_of(m[4][0])
            if method == "contains":
                # element is the first operand, the set the second
                if recv != {second} or arg != {first}:
                    why = "membership is tested as %s.contains(%s); expected <second operand: the set>.contains(<first operand: the element>)" % (sorted(recv), sorted(arg))
            elif recv != {first} or arg != {second}:
                why = "calls %s.%s(%s); expected %s.%s(%s)" % (sorted(recv), method, sorted(arg), first, method, second)
            if why is None and extra in ("<", ">"):
                cmps = [b for b in find(fs.solve, "bin") if b[1] == extra and "len" in render(b)]
                if not cmps or field_of(cmps[0][2]) != {first} or field_of(cmps[0][3]) != {second}:
                    why = "proper relation lacks the strict size comparison len(%s) %s len(%s)" % (first, extra, second)
            if why is None and extra == "!":
                if not any(u[1] == "!" and any(c is m for c in find(u, "mcall")) for u in find(fs.solve, "un")):
                    why = "negated membership does not negate the contains result"
            if why is None and extra is None and method == "contains":
                if any(u[1] == "!" and any(c is m for c in find(u, "mcall")) for u in find(fs.solve, "un")):
                    why = "membership result is negated"
        rep.check(why is None, "C14-R3", "%s:%s" % (var, fs.name), "%s (operator %s): %s" % (fs.name, var, why), "%s (%s)" % (fs.name, crate),
                  sample={"operator": var, "compiler": nfc, "kernel": fs.name, "method": method})
        # hops: NFC::compile arms and dispatcher
        comp = [it for it in items if it["k"] == "method" and it["name"] == "compile" and it["trait"] and last_seg(it["trait"]) == "NativeFunctionCompiler" and X.type_head(it["self"]) == nfc]
        npos = 0
        commutative = method in ("union", "intersection", "symmetric_difference")
        for it in (comp if not commutative else []):
            for mt in find(it["body"], "match"):
                for arm in mt[2]:
                    npos += positional_args(rep, "C14-R3", "%s::compile (%s)" % (nfc, crate), arm[0], arm[2], r"_fxn$", "%s::compile" % nfc)
        if not commutative:
            rep.floor("C14-R3", "operand-forwarding arms in %s::compile" % nfc, npos, 2)
        # dispatcher: fn x_fxn(lhs, rhs) -> struct {first: lhs.., second: rhs..}
        for it in items:
            if it["k"] == "fn" and it["name"].endswith("_fxn"):
                for s in find(it["body"], "struct"):
                    if s[1] == fs.name:
                        params = [p[0][1] for p in it["sig"]["inputs"] if is_node(p[0]) and p[0][0] == "pident"]
                        # arms rebind: pattern (Value::Set(lhs), Value::Set(rhs)) over (param0, param1)
                        init = {f[0]: f[1] for f in s[2]}
                        def src_pos(e, arm_pos):
                            names = [x[1] for x in find(e, "path")]
                            return {arm_pos[n] for n in names if n in arm_pos}
                        # find enclosing arm binder positions
                        arm_pos = {p: i for i, p in enumerate(params)}
                        for mt in find(it["body"], "match"):
                            for arm in mt[2]:
                                if any(x is s for x in find(arm[2], "struct")) and arm[0][0] == "ptuple":
                                    for i, compn in enumerate(arm[0][1]):
                                        for b in find(compn, "pident"):
                                            arm_pos[b[1]] = i
                        p1, p2 = src_pos(init.get(first), arm_pos), src_pos(init.get(second), arm_pos)
                        rep.check(p1 == {0} and p2 == {1}, "C14-R3", "%s:dispatcher-binds-in-order" % fs.name,
                                  "%s builds %s with %s from operand %s and %s from operand %s" % (it["name"], fs.name, first, sorted(p1), second, sorted(p2)), "%s (%s)" % (it["name"], crate))
    rep.floor("C14-R3", "set operators followed to their kernel", n_ops, 9)

    # ---- R2 size pairing
    n_mut = 0
    for c in ("mech_set.lib", "mech_core.lib", "mech_interpreter.lib"):
        for it in F.syn(c):
            if it["k"] not in ("fn", "method"):
                continue
            # flatten statements in order
            seq = []
            for n in walk(it["body"]):
                if n[0] == "mcall" and n[2] in MUTATORS and re.search(r"\.set$", render(n[1])):
                    seq.append(("mut", render(n[1]), n[2]))
                elif n[0] == "assign" and re.search(r"\.set$", render(n[1])):
                    seq.append(("mut", render(n[1]), "="))
                elif n[0] == "assign" and re.search(r"\.num_elements$", render(n[1])):
                    seq.append(("size", render(n[1])[:-len(".num_elements")], render(n[2])))
            muts = [i for i, s in enumerate(seq) if s[0] == "mut"]
            if not muts:
                continue
            n_mut += 1
            base = seq[muts[-1]][1][:-len(".set")] if seq[muts[-1]][1].endswith(".set") else seq[muts[-1]][1]
            later = [s for s in seq[muts[-1] + 1:] if s[0] == "size" and s[1] == base and re.search(r"\.set\.len\(\)", s[2])]
            name = "%s%s" % ((X.type_head(it["self"]) + "::") if it["k"] == "method" else "", it["name"])
            rep.check(bool(later), "C14-R2", "%s:size-after-mutation" % name,
                      "%s mutates `%s.set` (last: %s) and does not assign `%s.num_elements = %s.set.len()` afterwards: the reported size goes stale" % (name, base, seq[muts[-1]][2], base, base),
                      "%s (%s)" % (name, c), sample={"fn": name, "mutations": [s[2] for s in seq if s[0] == "mut"]})
    rep.floor("C14-R2", "bodies mutating a MechSet", n_mut, 8)

    # ---- R1 Hash for Value
    n_arms = 0
    for it in F.syn("mech_core.lib"):
        if it["k"] == "method" and it["trait"] and last_seg(it["trait"]) == "Hash" and X.type_head(it["self"]) == "Value" and it["name"] == "hash":
            for mt in find(it["body"], "match"):
                for arm in mt[2]:
                    p = arm[0]
                    if p[0] not in ("pts", "ppath"):
                        continue
                    var = p[1].split("::")[-1]
                    n_arms += 1
                    txt = render(arm[2])
                    binders = [b[1] for b in find(p, "pident")]
                    selfrec = re.search(r"Value::%s\b[^;]*\.hash\(" % re.escape(var), txt) is not None and not binders
                    if selfrec:
                        rep.bad("C14-R1", "Value::%s:self-recursive-hash" % var, "Hash for Value::%s calls itself (`%s`): hashing such a value never terminates (stack overflow aborts the host)" % (var, txt[:60]), "src/core/src/value.rs")
                        continue
                    if re.search(r"todo!|unimplemented!|panic", txt):
                        rep.note("hash_arm_panics", "Value::%s => %s (an error, not a wrong set)" % (var, txt[:30]))
                        rep.ok("C14-R1", "Value::%s" % var)
                        continue
                    ok = all(re.search(r"\b%s\b(\.borrow\(\))?(\.to_bits\(\))?\.hash\(state\)" % re.escape(b), txt) for b in binders) and (bool(binders) or ".hash(state)" in txt)
                    rep.check(ok, "C14-R1", "Value::%s" % var, "Hash for Value::%s is `%s`: the payload is not hashed through a recognised idiom (x.hash / x.borrow().hash / to_bits)" % (var, txt[:80]), "src/core/src/value.rs",
                              sample={"variant": var, "hash": txt[:60]})
    rep.floor("C14-R1", "Hash arms of Value", n_arms, 40)

    # ---- R4 literal kind test (MIR)
    cgi = CallGraph(F, ["mech_interpreter.lib"])
    sb = cgi.bodies.get("mech_interpreter::structures::set")
    if rep.check(sb is not None, "C14-R4", "anchor:set", "set literal evaluator not found"):
        ok_exits, err_exits = result_exits(sb)
        comp = calls_matching(sb, r"NativeFunctionCompiler>::compile$|MechSet::from_vec$|MechSet::from_set$")
        kind_cmp = [i for i, t in sb.calls() if re.search(r"PartialEq(<.*>)?(>)?::(ne|eq)$", t.get("f") or t["tf"]) and "ValueKind" in " ".join(t.get("ga", []))]
        mism = [i for i, s in sb.aggs() if "SetKindMismatch" in s["adt"]]
        rep.check(bool(mism), "C14-R4", "kind-mismatch-error-exists", "the set literal evaluator no longer raises a kind-mismatch error", sb.where())
        for ci, ct in comp:
            good = False
            for k in kind_cmp:
                fwd = sb.reachable_from([k])
                if ci in fwd and k not in sb.reachable_from([ci]) and any(m in fwd for m in mism):
                    good = True
            rep.check(good and all(ci not in sb.reachable_from([m]) for m in mism), "C14-R4", "kind-test-precedes-construction",
                      "the set is constructed (line %d) without a preceding element-kind comparison that can exit with the kind-mismatch error" % ct["l"], "%s:%d" % (sb.file, ct["l"]))
        rep.floor("C14-R4", "set construction sites in set()", len(comp), 1)
    from rules.loopshape import c14_generator_source_per_environment
    c14_generator_source_per_environment(F, rep)
    from rules.loopshape import c14_membership_complement
    c14_membership_complement(F, rep)
    from rules.loopshape import trial_env_fresh
    trial_env_fresh(F, rep, "C14-R7", {"comprehension_environments"}, 1)
    from rules.loopshape import c14_result_kind_from_result
    c14_result_kind_from_result(F, rep)
    from rules.loopshape import c14_kind_guard_mirrored
    c14_kind_guard_mirrored(F, rep)
