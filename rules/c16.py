"""C16 — first matching arm: forward order, first match exits, fresh environment per arm shared by matcher/guard/body,
arity test, exhaustiveness test before the arm loop, no-match error, pattern traversals visit every sub-pattern."""
import re
from lib.facts import CallGraph, find, is_node, path_of, render, render_stmt
from lib.armloop import arm_loops, check_arm_loop, matcher_calls, field_use, lets_in
from lib.mirq import calls_matching, result_exits

TECHNIQUE = ("structural rules over the expanded syntax of the two arm selectors (loop order, exit on first success, environment declared per arm and passed to "
             "matcher, guard and body), statement-order/dominance rules for the arity and exhaustiveness tests (MIR), and field-use completeness (K6) of "
             "every pattern traversal in interpreter/patterns.rs")
EXPLANATION = (
    "Decides structural clauses of C16 for execute_function_match_arms and match_expression: (R1) arms are tried in forward source order and the first "
    "success returns; (R2) the environment filled by the pattern matcher is created inside the arm loop (fresh per arm) and is the same variable handed to "
    "the guard evaluator and to the arm body; (R3) the argument-count test dominates arm execution in execute_user_function and falling out of the arm "
    "loop is an Err; (R4) in match_expression the non-exhaustive Err exit precedes the arm loop; (R6) every traversal of a Pattern in interpreter/patterns.rs "
    "that recurses into an array/tuple pattern visits all of its sub-pattern fields (prefix, spread, suffix). Not decided: recursion results, broadcast of "
    "scalar functions, option coalescing."
    " (R5) inside the tail-call loop of execute_user_function only the loop-carried argument vector is read, never the initial call's arguments."
    ' (R7) both operands of every pattern/value zip in the matcher are plain forward iterators, and the suffix patterns are paired with the slice starting at len - suffix.len().'
    ' (R8) each match arm / function arm is tried against its own scratch environment; (R9) every *NonExhaustive* error is skipped only under an `arms.any(matches!(arm.pattern, Pattern::Wildcard))` flag - no wider catch-all predicate.'
    ' (R10) broadcasting a scalar function over a matrix applies it to every element of matrix_like_values(source) in storage order (one push per element, errors propagated) and reassembles with (shape[0], shape[1]) of the source.'
)


def fn_item(items, name, mod_suffix):
    r = [it for it in items if it["k"] == "fn" and it["name"] == name and it["mod"].endswith(mod_suffix)]
    return r[0] if r else None


def run(F, rep, tier):
    crate = "mech_interpreter.lib"
    items = F.syn(crate)
    rep.rule("C16-R1", "arms tried in forward order; the first success returns")
    rep.rule("C16-R2", "pattern environment is fresh per arm and shared by matcher, guard and body")
    rep.rule("C16-R3", "arity test dominates arm execution; no matching arm is an Err")
    rep.rule("C16-R4", "match_expression: the exhaustiveness Err exit precedes the arm loop")
    rep.rule("C16-R6", "pattern traversals visit every sub-pattern field (K6 field-use)")
    for name, mod in (("execute_function_match_arms", "functions"), ("match_expression", "expressions")):
        it = fn_item(items, name, mod)
        if not rep.check(it is not None, "C16-R1", "anchor:%s" % name, "%s not found" % name):
            continue
        loops = [l for l in arm_loops(it["body"]) if matcher_calls(l[3])]
        if not rep.check(len(loops) == 1, "C16-R1", "%s:arm-loop" % name, "%s: expected one arm-selection loop, found %d" % (name, len(loops))):
            continue
        loop = loops[0]
        envs, lets = check_arm_loop(rep, "C16", name, loop)
        body = loop[3]
        # guard and body use the matcher's environment
        for env in sorted(envs):
            guard_calls = []
            for gm in find(body, "match"):
                # the guard of the arm under test: `match &arm.guard { Some(guard) => guard_expression_true(guard, ENV, p) .. }`
                if re.fullmatch(r"&?arm\.guard", render(gm[1]).strip()):
                    guard_calls += [c for c in find(gm, "call") if path_of(c[1]) and re.search(r"guard_expression_true$", path_of(c[1]))]
            rep.check(len(guard_calls) >= 1, "C16-R2", "%s:guard-evaluated" % name, "%s: the guard of the arm under test is not evaluated" % name) if name == "match_expression" else None
            for c in guard_calls:
                args = [render(a) for a in c[2]]
                rep.check(any(re.search(r"\b%s\b" % re.escape(env), a) for a in args), "C16-R2", "%s:guard-uses-arm-env" % name,
                          "%s: the arm guard is evaluated with %s instead of the environment the pattern matcher filled (`%s`): pattern variables are not visible to the guard" % (name, args[1:2], env))
            body_calls = [c for c in find(body, "call") if path_of(c[1]) == "expression" and any(re.search(r"(?<![A-Za-z_])arm\.expression", render(a)) for a in c[2])]
            rep.check(len(body_calls) >= 1, "C16-R2", "%s:body-evaluated" % name, "%s: the matching arm's expression is not evaluated" % name)
            for c in body_calls:
                args = [render(a) for a in c[2]]
                rep.check(any(re.search(r"\b%s\b" % re.escape(env), a) for a in args), "C16-R2", "%s:body-uses-arm-env" % name,
                          "%s: the arm body is evaluated with %s instead of the matcher's environment `%s`" % (name, args[1:2], env), sample={"fn": name, "env": env})
        # after the loop: Err
        stmts = it["body"]
        idx = None
        for i, st in enumerate(stmts):
            if st[0] == "expr" and st[1] is loop:
                idx = i
        tail = stmts[idx + 1:] if idx is not None else []
        tail_txt = " ".join(render_stmt(s) for s in tail)
        rep.check(idx is not None and "Err(" in tail_txt and "Ok(" not in tail_txt, "C16-R3", "%s:no-match-is-error" % name,
                  "%s: falling out of the arm loop does not produce an error (`%s`)" % (name, tail_txt[:100]))
        if name == "match_expression":
            pre = stmts[:idx] if idx is not None else []
            pre_txt = " ".join(render_stmt(s) for s in pre)
            rep.check("MatchNonExhaustiveError" in pre_txt and "return Err" in pre_txt.replace("return  Err", "return Err"), "C16-R4", "match_expression:exhaustiveness-before-arms",
                      "match_expression: no `return Err(MatchNonExhaustiveError)` precedes the arm loop: a match without wildcard that does not cover its enum is no longer rejected")
            rep.check(re.search(r"Pattern::Wildcard", pre_txt) is not None, "C16-R4", "match_expression:wildcard-test", "match_expression: the wildcard test before the arm loop is gone")
    # R3 arity test in execute_user_function (MIR dominance)
    cg = CallGraph(F, [crate])
    eu = [b for f, b in cg.bodies.items() if f.endswith("functions::execute_user_function")]
    if rep.check(len(eu) == 1, "C16-R3", "anchor:execute_user_function", "execute_user_function not found"):
        b = eu[0]
        arms = calls_matching(b, r"execute_function_match_arms$")
        ok_exits, err_exits = result_exits(b)
        # a comparison of two lengths (Ne/Eq on len() results) whose one side reaches only Err exits and dominates the arm executor
        from lib.mirq import Slice, edge_dominates
        sl = Slice(b)
        guards = []
        for i, blk in enumerate(b.blocks):
            t = blk["t"]
            if t["k"] != "switch" or not isinstance(t["on"], list):
                continue
            for bi, s in sl.defs.get(t["on"][0], []):
                if s.get("rk") == "bin" and s.get("op") in ("Ne", "Eq"):
                    roots = set()
                    for o in s["src"]:
                        roots |= {r[1].split("::")[-1] for r in sl.roots(o) if r[0] == "call"}
                    if "len" in roots:
                        guards.append(i)
        for ai, at in arms:
            rep.check(any(b.dominates(g, ai) for g in guards), "C16-R3", "execute_user_function:arity-test-dominates",
                      "execute_user_function runs the match arms (line %d) without a dominating argument-count comparison" % at["l"], "%s:%d" % (b.file, at["l"]))
        rep.floor("C16-R3", "arm executor call sites", len(arms), 1)
    # R6 field-use in patterns.rs
    pats = [it for it in items if it["k"] == "fn" and it["mod"].endswith("patterns")]
    n = field_use(rep, "C16-R6", F, crate, pats, F.adts("mech_core.lib"), "nodes::Pattern", lambda f: "Pattern" in f[1], exclude_fns=("summarize_pattern",))
    rep.floor("C16-R6", "pattern traversal arms with sub-pattern fields", n, 3)
    rep.analysed = {"pattern_functions": len(pats)}
    from rules.loopshape import c16_loop_carried_args
    c16_loop_carried_args(F, rep)
    from rules.loopshape import c16_pattern_value_pairing
    c16_pattern_value_pairing(F, rep)
    from rules.loopshape import trial_env_fresh
    trial_env_fresh(F, rep, "C16-R8", {"match_expression", "match_validate_arm_kinds", "execute_function_match_arms"}, 3)
    from rules.loopshape import c16_catch_all_predicate
    c16_catch_all_predicate(F, rep)
    from rules.loopshape import c16_broadcast_shape
    c16_broadcast_shape(F, rep)
