"""C16 — first matching arm: forward order, first match exits, fresh environment per arm shared by matcher/guard/body,
arity test, exhaustiveness test before the arm loop, no-match error, pattern traversals visit every sub-pattern.

Roles are recognised by callee, field, type and provenance (lib/synq.py), never by the spelling of a local, and through private
helpers (a helper call stands for its body with the parameters bound to the arguments):
  arm loop        a `for` whose iterator (named locals expanded) reads an `arms` / `match_arms` field and whose body reaches a pattern matcher
  arm under test  the bindings of that loop's pattern
  environment     what the matcher receives as `&mut`
  matched / guard the value of the matcher call / of the guard evaluator, wherever it is stored, negated, combined or tested
"""
import re
from lib.facts import CallGraph, find, is_node, path_of, render, render_stmt
from lib.armloop import field_use
from lib.mirq import calls_matching, result_exits
from lib import synq as Q

TECHNIQUE = ("structural rules over the expanded syntax of the two arm selectors (loop order, exit on first success, environment declared per arm and passed to "
             "matcher, guard and body) decided on lexically resolved bindings, path conditions and private helpers inlined at their call sites, "
             "statement-order/dominance rules for the arity and exhaustiveness tests (MIR), and field-use completeness (K6) of "
             "every pattern traversal in interpreter/patterns.rs; finite verdict tables of the pattern matcher per comparison-mode constant "
             "(path conditions evaluated for every variant of the mode enum, data/control dependence of each verdict on the matched value) joined with the "
             "mode constants that reach the matcher from each arm selector through its wrappers")
EXPLANATION = (
    "Decides structural clauses of C16 for execute_function_match_arms and match_expression: (R1) arms are tried in forward source order and the first "
    "success returns; (R2) the environment filled by the pattern matcher is created inside the arm loop (fresh per arm) and is the same variable handed to "
    "the guard evaluator and to the arm body; (R3) the argument-count test dominates arm execution in execute_user_function and falling out of the arm "
    "loop is an Err; (R4) in match_expression the non-exhaustive Err exit precedes the arm loop; (R6) every traversal of a Pattern in interpreter/patterns.rs "
    "that recurses into an array/tuple pattern visits all of its sub-pattern fields (prefix, spread, suffix). Not decided: recursion results, broadcast of "
    "scalar functions, option coalescing."
    " (R5) inside the tail-call loop of execute_user_function only the loop-carried argument vector is read, never the initial call's arguments."
    ' (R7) both operands of every pattern/value zip in the matcher are plain forward iterators, and the suffix patterns are paired with the slice starting at len - suffix.len().'
    ' (R8) each match arm / function arm is tried against its own scratch environment; (R9) every *NonExhaustive* error is skipped only under an `arms.any(matches!(arm.pattern, Pattern::Wildcard))` flag - no wider catch-all predicate.'
    ' (R10) broadcasting a scalar function over a matrix applies it to every element of matrix_like_values(source) in storage order (one push per element, errors propagated) and reassembles with (shape[0], shape[1]) of the source.'
    ' (R12) the comparison-mode constant that reaches the pattern matcher from the function-arm selector, from the state-machine arms and from the match-expression arms (explicitly or through mode-less wrappers) is one '
    'under which every verdict the matcher makes from an evaluated expression pattern or a repeated variable depends on the matched value (finite table over the variants of the mode enum, '
    'path conditions evaluated per variant), every recursive matcher call hands on its own mode parameter, and all match-expression sites use one mode; which arm then runs for which argument '
    '(the behaviour itself) is not decided.'
    ' (R13) in the pattern matcher every non-`false` verdict and every descent into the sub-patterns of a tagged pattern (a Pattern variant whose payload struct has an identifying field, '
    'PatternTupleStruct.name - read off the ADT) lies behind a test that depends on that field and on the matched value; that the test is the right comparison is not decided.'
    ' (R14) scope forwarding: every evaluator that receives the local environment (the variables bound by an arm pattern) hands it to every sub-evaluator it calls; none passes the literal None in the environment position (a guard or body sub-expression would be evaluated against the globals).'
)

ARMS_RX = re.compile(r"\.(match_)?arms\b")
REORDER_RX = re.compile(r"\.rev\(\)|rposition|\.last\(\)|rfold|sort")
MATCHER_RX = re.compile(r"(^|::)pattern_matches\w*$")
GUARD_RX = re.compile(r"(^|::)guard_expression_true$")
SELECTORS = (("execute_function_match_arms", "functions"), ("match_expression", "expressions"))


def is_matcher(c, p):
    return MATCHER_RX.search(p) is not None


def last(p):
    return re.sub(r"<.*>", "", p).split("::")[-1]


class Selector:
    """one arm-selection loop with everything the rules ask about it"""

    def __init__(self, fns, it):
        self.fns = fns
        self.it = it
        self.sc = Q.Scope(fns).add_fn(it)
        self.loop = None
        self.root = None          # the statement list (fn body or inlined helper body) the loop lives in
        self.outer = []           # statement lists of the callers up to the anchor, with the index of the call: [(stmts, idx)]
        self.candidates = []
        self._find(it["body"], [], 2)
        if len(self.candidates) == 1:
            self.loop, self.root, self.outer = self.candidates[0]

    def follow_any(self, h):
        """helpers worth looking into: private, and not another anchor"""
        return Q.is_private(h) and h["name"] not in [s[0] for s in SELECTORS] and h["name"] != self.it["name"]

    def follow(self, h):
        """helpers that are part of ONE arm's trial: not those that run an arm loop of their own (e.g. the kind validation of the other arms)"""
        return self.follow_any(h) and not any(ARMS_RX.search(render(f[2])) for f in find(h["body"], "for"))

    def _is_arm_loop(self, f):
        return ARMS_RX.search(self.sc.text(f[2])) is not None and any(True for _ in Q.calls_via(self.sc, f[3], is_matcher, 2, self.follow, self.it["mod"]))

    def _find(self, stmts, outer, depth):
        here = [f for f in find(stmts, "for") if self._is_arm_loop(f)]
        here = [f for f in here if not any(g is not f and Q.contains(g[3], f) for g in here)]     # an arm loop inside another one belongs to that one's trial
        for f in here:
            self.candidates.append((f, stmts, outer))
        if here or depth <= 0:
            return
        for c in list(find(stmts, "call")):
            h = self.fns.callee(c, self.it["mod"])
            if h is None or not self.follow_any(h):
                continue
            body = self.sc.inline(c, h)
            if body is None:
                continue
            tr = Q.locate(stmts, c)
            self._find(body, outer + ([tr[0]] if tr else []), depth - 1)

    # -- the parts of the loop
    def trees(self):
        """the loop body and every helper body it enters"""
        if not hasattr(self, "_trees"):
            self._trees = [t for t, _ in Q.expand_via(self.sc, self.loop[3], 2, self.follow, self.it["mod"])]
        return self._trees

    def nested(self):
        """ids of the nodes inside arm loops nested in this one (e.g. the kind validation of the other arms, when it is written in line):
        they try OTHER arms and are not part of this arm's trial"""
        if not hasattr(self, "_nested"):
            self._nested = set()
            for f in find(self.loop[3], "for"):
                if ARMS_RX.search(self.sc.text(f[2])):
                    self._nested |= {id(x) for x in Q.walk_no_closure(f[3])} | {id(x) for x in find(f[3], "call")}
        return self._nested

    def calls(self, pred):
        return [r[0] for r in Q.calls_via(self.sc, self.loop[3], pred, 2, self.follow, self.it["mod"]) if id(r[0]) not in self.nested()]

    def arm_vars(self):
        """bindings that stand for the arm under test: the loop pattern's, their aliases (`let a = arm`), and `&ARMS[i]` / `ARMS.get(i)` for a loop variable i"""
        if hasattr(self, "_arm_vars"):
            return self._arm_vars
        sc = self.sc
        out = set(sc.decl.get(id(self.loop), []))
        owners = [o for t in self.trees() for o in list(find(t, "let")) + list(find(t, "letc"))]
        for _round in range(3):
            for o in owners:
                for b in sc.decl.get(id(o), []):
                    if b in out or b.src is None:
                        continue
                    x = Q.strip(b.src)
                    if is_node(x) and x[0] == "mcall" and x[2] in ("get", "get_unchecked", "nth") and x[4]:
                        x = ["index", x[1], x[4][0]]
                    if sc.binding(x) in out:
                        out.add(b)
                    elif is_node(x) and x[0] == "index" and ARMS_RX.search(sc.text(x[1]) + ".") and any(sc.mentions(x[2], v) for v in list(out)):
                        out.add(b)
        self._arm_vars = out
        return out

    def envs(self):
        out = []
        for c in self.calls(is_matcher):
            for a in c[2]:
                if is_node(a) and a[0] == "ref" and a[1]:
                    b = self.sc.root(a)
                    if b is not None and b not in out:
                        out.append(b)
        return out

    def declared_per_arm(self, b):
        if b.owner is None or b.kind == "param":
            return False
        return any(Q.contains(t, b.owner) for t in self.trees())

    def reset_before_matcher(self, b):
        for top in self.loop[3]:
            if any(True for _ in Q.calls_via(self.sc, top, is_matcher, 2, self.follow, self.it["mod"])):
                return False
            if top[0] == "expr" and is_node(top[1]) and top[1][0] == "assign" and self.sc.binding(top[1][1]) is b:
                return True
        return False

    def success(self):
        """assumption 'this arm matched and its guard passed'"""
        def prim(c, p):
            if MATCHER_RX.search(p) or GUARD_RX.search(p):
                return True
            return None
        return Q.Assume(self.sc, prim)

    def before_after(self):
        """statements executed before the loop is entered / after it is left normally, innermost function first for `after`"""
        pre, post = [], []
        for lst, i in self.outer:
            pre += lst[:i]
        trail = Q.locate(self.root, self.loop)
        for lst, i in trail:
            pre += lst[:i]
        for lst, i in reversed(trail):
            post += lst[i + 1:]
        return pre, post


def texts_via(sel, stmts):
    out = []
    for t, _ in Q.expand_via(sel.sc, stmts, 2, sel.follow, sel.it["mod"]):
        out.append(" ".join(render_stmt(s) for s in t))
    return " ".join(out)


def check_selector(rep, sel, name):
    sc = sel.sc
    loop = sel.loop
    body = loop[3]
    itx = sc.text(loop[2])
    rep.check(not REORDER_RX.search(itx), "C16-R1", "%s:forward-order" % name,
              "%s tries the arms as `%s` (not in source order)" % (name, render(loop[2])), sample={"fn": name, "iterator": itx})
    mc = sel.calls(is_matcher)
    rep.check(len(mc) >= 1, "C16-R2", "%s:matcher-called" % name, "%s: the arm loop does not call the pattern matcher" % name)
    envs = sel.envs()
    if not envs:
        rep.note("undecided", {"rule": "C16-R2", "fn": name, "why": "the pattern matcher is called but the environment it fills is not passed as `&mut <place>`"})
    for env in envs:
        fresh = sel.declared_per_arm(env) or sel.reset_before_matcher(env)
        rep.check(fresh, "C16-R2", "%s:env-fresh-per-arm" % name,
                  "%s: the environment `%s` that the pattern matcher fills is not created inside the arm loop: bindings made while testing one arm leak into the test of the next arm (a later arm that should be the first match can be rejected)" % (name, env.name),
                  sample={"fn": name, "env": env.name, "declared": render_stmt(env.owner)[:100] if env.owner and env.kind != "param" else None})
    # R1: on success the loop is left.  Path conditions at every way of going on to the next arm must contradict "matched and guard passed".
    ok = sel.success()
    fl = Q.Flow(body).run()
    exits = [(k, n, f) for k, n, f, d in fl.events if k == "ret" or (k == "break" and d == 0)]
    succ = [x for x in exits if Q.supported(x[2], ok.atom, sc) and not Q.contradicted(x[2], ok.atom, sc)]
    rep.check(len(succ) >= 1, "C16-R1", "%s:success-branch" % name, "%s: no exit of the arm loop is taken because the arm matched" % name)
    nexts = [f for k, n, f, d in fl.events if k == "continue" and d == 0] + ([fl.end] if fl.end is not None else [])
    leaks = [f for f in nexts if not Q.contradicted(f, ok.atom, sc)]
    if succ:
        rep.check(not leaks, "C16-R1", "%s:first-match-exits" % name,
                  "%s: after an arm matched (and its guard passed) the loop can still go on to the next arm: later arms are tried after a match" % name)
    arm_vars = sel.arm_vars()
    for env in envs:
        if name == "match_expression":
            def is_guard_eval(c, p):
                if GUARD_RX.search(p):
                    return True
                return last(p) == "expression" and any(sc.field_of(a, "guard", arm_vars) for a in c[2])
            gc = [c for c in sel.calls(is_guard_eval) if any(sc.field_of(a, "guard", arm_vars) for a in c[2])]
            rep.check(len(gc) >= 1, "C16-R2", "%s:guard-evaluated" % name, "%s: the guard of the arm under test is not evaluated" % name)
            for c in gc:
                rep.check(any(sc.mentions(a, env) for a in c[2]), "C16-R2", "%s:guard-uses-arm-env" % name,
                          "%s: the arm guard is evaluated with %s instead of the environment the pattern matcher filled (`%s`): pattern variables are not visible to the guard" % (
                              name, [render(a) for a in c[2]][1:2], env.name))
        bc = sel.calls(lambda c, p: last(p) == "expression" and any(sc.field_of(a, "expression", arm_vars) for a in c[2]))
        rep.check(len(bc) >= 1, "C16-R2", "%s:body-evaluated" % name, "%s: the matching arm's expression is not evaluated" % name)
        for c in bc:
            rep.check(any(sc.mentions(a, env) for a in c[2]), "C16-R2", "%s:body-uses-arm-env" % name,
                      "%s: the arm body is evaluated with %s instead of the matcher's environment `%s`" % (name, [render(a) for a in c[2]][1:2], env.name),
                      sample={"fn": name, "env": env.name})
    # R3: falling out of the loop is an error
    pre, post = sel.before_after()
    errs = [r for r in Q.calls_via(sc, post, lambda c, p: p == "Err", 2, sel.follow, sel.it["mod"])]
    carriers = set()
    for a in find(body, "assign"):
        b = sc.binding(a[1])
        if b is not None and not sel.declared_per_arm(b):
            carriers.add(b)
    pf = Q.Flow(post).run(want=("call",))
    bad_ok = []
    for r in Q.calls_via(sc, post, lambda c, p: p == "Ok", 2, sel.follow, sel.it["mod"]):
        site = pf.sites.get(id(r[0]))
        conditional = site is not None and any(sc.mentions(c, b, 2) for c, _ in site[1] for b in carriers)
        if not conditional:
            bad_ok.append(r[0])
    tail_txt = " ".join(render_stmt(s) for s in post)
    rep.check(bool(errs) and not bad_ok, "C16-R3", "%s:no-match-is-error" % name,
              "%s: falling out of the arm loop does not produce an error (`%s`)" % (name, tail_txt[:100]))
    if name == "match_expression":
        def nonexh_err(c, p):
            return p == "Err" and "MatchNonExhaustiveError" in render(c)
        hits = list(Q.calls_via(sc, pre, nonexh_err, 2, sel.follow, sel.it["mod"]))
        rets = list(find(pre, "ret"))
        leaves = [h for h in hits if h[1] or any(Q.contains(r, h[0]) for r in rets)]
        rep.check(bool(leaves), "C16-R4", "match_expression:exhaustiveness-before-arms",
                  "match_expression: no `return Err(MatchNonExhaustiveError)` precedes the arm loop: a match without wildcard that does not cover its enum is no longer rejected")
        rep.check("Pattern::Wildcard" in texts_via(sel, pre), "C16-R4", "match_expression:wildcard-test", "match_expression: the wildcard test before the arm loop is gone")


def len_compare_blocks(b, both=False):
    """blocks that branch on an (in)equality of two values at least one of which (both=True: each of which) is a len()"""
    from lib.mirq import Slice
    sl = Slice(b)
    out = []
    for i, blk in enumerate(b.blocks):
        t = blk["t"]
        if t["k"] != "switch" or not isinstance(t["on"], list):
            continue
        for bi, s in sl.defs.get(t["on"][0], []):
            if s.get("rk") == "bin" and s.get("op") in ("Ne", "Eq"):
                per = [{r[1].split("::")[-1] for r in sl.roots(o) if r[0] == "call"} for o in s["src"]]
                if (all("len" in r for r in per) and len(per) == 2) if both else any("len" in r for r in per):
                    out.append(i)
    return out


def check_arity(F, rep, crate, fns):
    """R3: the argument-count test dominates arm execution (MIR dominance; named locals, operand order and `!=`/`==` do not matter).
    The arm executor may be called directly or through a private helper; the count test may sit in a private helper called on the way."""
    cg = CallGraph(F, [crate])
    eu = [b for f, b in cg.bodies.items() if f.endswith("functions::execute_user_function")]
    if not rep.check(len(eu) == 1, "C16-R3", "anchor:execute_user_function", "execute_user_function not found"):
        return
    b = eu[0]
    private = {it["name"] for its in fns.by_name.values() for it in its if Q.is_private(it)}

    def local_private(f):
        return f in cg.bodies and f != b.fn and f.split("::")[-1] in private

    def reaches_selector(f, depth):
        if re.search(r"execute_function_match_arms$", f):
            return True
        if depth <= 0 or not local_private(f):
            return False
        return any(reaches_selector(g, depth - 1) for g in cg.out(f))

    arms = [(i, t) for i, t in b.calls() if reaches_selector(t.get("f") or t["tf"], 2)]
    guards = len_compare_blocks(b)
    _ok, err_here = result_exits(b)
    for i, t in b.calls():
        f = t.get("f") or t["tf"]
        if local_private(f) and not reaches_selector(f, 2):
            hb = cg.bodies[f]
            explicit_err = any(s_.get("rk") == "agg" and s_.get("adt", "").endswith("result::Result") and s_.get("var") == "Err" for _i, s_ in hb.stmts())
            if len_compare_blocks(hb, both=True) and explicit_err:
                guards.append(i)    # `check_arity(fxn_def, args)?`: a helper that compares two lengths and builds an Err
    for ai, at in arms:
        rep.check(any(b.dominates(g, ai) for g in guards), "C16-R3", "execute_user_function:arity-test-dominates",
                  "execute_user_function runs the match arms (line %d) without a dominating argument-count comparison" % at["l"], "%s:%d" % (b.file, at["l"]))
    rep.floor("C16-R3", "arm executor call sites", len(arms), 1)


def run(F, rep, tier):
    crate = "mech_interpreter.lib"
    items = F.syn(crate)
    fns = Q.Fns(items)
    # R14: pattern variables stay visible in guards and bodies - every evaluator that receives the local environment forwards it (rules/scope_forward.py)
    from rules import scope_forward
    _nc, _ns = scope_forward.run(F, rep, "C16-R14")
    rep.floor("C16-R14", "evaluators that receive the local environment", _nc, 25)
    rep.floor("C16-R14", "sub-evaluator calls with an environment position", _ns, 80)
    rep.rule("C16-R1", "arms tried in forward order; the first success returns")
    rep.rule("C16-R2", "pattern environment is fresh per arm and shared by matcher, guard and body")
    rep.rule("C16-R3", "arity test dominates arm execution; no matching arm is an Err")
    rep.rule("C16-R4", "match_expression: the exhaustiveness Err exit precedes the arm loop")
    rep.rule("C16-R6", "pattern traversals visit every sub-pattern field (K6 field-use)")
    for name, mod in SELECTORS:
        it = fns.get(name, mod)
        if not rep.check(it is not None, "C16-R1", "anchor:%s" % name, "%s not found" % name):
            continue
        sel = Selector(fns, it)
        n = len(sel.candidates)
        if n == 0:
            # the selection may still happen, but not as a `for` over the arms: a `while let` / `loop` / iterator adaptor that reaches the matcher
            other = [l for l in list(find(it["body"], "while")) + list(find(it["body"], "loop")) + list(find(it["body"], "closure"))
                     if Q.reaches(fns, l, is_matcher, 2, Q.is_private)]
            if other:
                rep.note("undecided", {"rule": "C16-R1", "fn": name, "why": "the pattern matcher is reached from a %s, not from a `for` loop over the arms" % other[0][0]})
                continue
        if not rep.check(n == 1, "C16-R1", "%s:arm-loop" % name, "%s: expected one arm-selection loop, found %d" % (name, n)):
            continue
        check_selector(rep, sel, name)
    check_arity(F, rep, crate, fns)
    # R6 field-use in patterns.rs
    from rules.c16_shapes import field_use_via
    pats = [it for it in items if it["k"] == "fn" and it["mod"].endswith("patterns")]
    n = field_use_via(rep, "C16-R6", fns, pats, F.adts("mech_core.lib"), "nodes::Pattern", lambda f: "Pattern" in f[1], exclude_fns=("summarize_pattern",))
    rep.floor("C16-R6", "pattern traversal arms with sub-pattern fields", n, 3)
    rep.analysed = {"pattern_functions": len(pats)}
    from rules import c16_shapes as S
    S.loop_carried_args(F, rep, fns)
    S.pattern_value_pairing(F, rep, fns)
    S.trial_env_fresh(F, rep, fns, "C16-R8", ("match_expression", "match_validate_arm_kinds", "execute_function_match_arms"), 3)
    S.catch_all_predicate(F, rep, fns)
    S.broadcast_shape(F, rep, fns)
    from rules.pattern_arity import length_admissibility
    length_admissibility(F, rep, "C16-R11")
    from rules import c16_mode
    c16_mode.run(F, rep, fns)
    from rules import c16_tag
    c16_tag.run(F, rep, fns)
