"""C09-R14: positions measured in a NESTED input never reach an error range.

A few parser functions re-enter the parser on a substring: they build a second `ParseString` from part of the text (the rich text of a comment, the cells of
a table) and parse that.  Its cursor restarts at row 1, column 1, so a location read from the nested string (or from anything its parsers returned) is a
position in ANOTHER coordinate system; put into the `SourceRange` of an error it points outside the input (or at unrelated text).  Structural fact decided: in
every function that constructs a ParseString while itself working on one (found by type: a `ParseString` parameter and a `ParseString::new(..)` call), no
value derived from the nested string - through let bindings, tuple patterns, parser applications, match arms - occurs in a field of a `SourceRange { .. }`
literal, in an argument of `ParseError::new` / an `error_log.push(..)`, flow-insensitively over the function's bindings (a name that is ever bound from a
tainted expression is tainted).  What is decided is the provenance of the positions, not their values."""
import re
from lib.facts import walk, is_node, path_of, find, render


def _names(pat):
    return {n[1] for n in walk(pat) if is_node(n) and n[0] == "pident"}


def _mentions(e, names):
    return any(is_node(n) and n[0] == "path" and n[1] in names for n in walk(e))


def run(F, rep, crate="mech_syntax.lib"):
    rid = "C09-R14"
    rep.rule(rid, "error ranges are measured in the coordinates of the input: a location derived from a nested ParseString (a re-parse of a substring, whose cursor restarts "
                  "at 1:1) never flows into a SourceRange literal, a ParseError or an error-log entry")
    n_fn = n_sinks = 0
    for it in F.syn(crate):
        if it.get("k") not in ("fn", "method") or not it.get("body") or not it.get("sig"):
            continue
        if not any("ParseString" in str(t) for _, t in it["sig"]["inputs"]):
            continue
        body = it["body"]
        seeds = set()
        for n in walk(body):
            if is_node(n) and n[0] == "let" and n[2] is not None and any(is_node(c) and c[0] == "call" and (path_of(c[1]) or "").endswith("ParseString::new") for c in walk(n[2])):
                seeds |= _names(n[1])
        if not seeds:
            continue
        n_fn += 1
        tainted = set(seeds)
        changed = True
        while changed:
            changed = False
            for n in walk(body):
                if not is_node(n):
                    continue
                if n[0] == "let" and n[2] is not None and _mentions(n[2], tainted):
                    new = _names(n[1]) - tainted
                    if new:
                        tainted |= new
                        changed = True
                elif n[0] == "match" and _mentions(n[1], tainted):
                    for arm in n[2]:
                        new = _names(arm[0]) - tainted
                        if new:
                            tainted |= new
                            changed = True
                elif n[0] in ("iflet", "if_let", "whilelet") and len(n) > 2 and _mentions(n[2], tainted):
                    new = _names(n[1]) - tainted
                    if new:
                        tainted |= new
                        changed = True
        k = 0
        for n in walk(body):
            if not is_node(n):
                continue
            sink = None
            if n[0] == "struct" and str(n[1]).split("::")[-1] == "SourceRange":
                sink = [e for _, e in n[2]]
            elif n[0] == "call" and re.search(r"ParseError(::new)?$", path_of(n[1]) or ""):
                sink = list(n[2])
            if sink is None:
                continue
            n_sinks += 1
            bad = [render(e)[:60] for e in sink if _mentions(e, tainted)]
            k += 1
            rep.check(not bad, rid, "%s:range#%d:from-nested-input" % (it["name"], k) if bad else "%s:range#%d" % (it["name"], k),
                      "%s() re-parses a substring in a nested ParseString and builds an error range from %s, which derives from the nested string: its positions restart at 1:1 "
                      "and do not lie where the error is (possibly outside the input)" % (it["name"], bad), "%s (%s, line %s)" % (it["name"], crate, it.get("line")),
                      sample={"fn": it["name"], "nested_bindings": sorted(seeds)})
    rep.floor(rid, "parser functions that re-enter the parser on a nested ParseString", n_fn, 1)
    rep.floor(rid, "error-range constructions in those functions", n_sinks, 1)
