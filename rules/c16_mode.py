"""C16-R12 - a function arm's pattern is COMPARED with the argument: the comparison mode that reaches the pattern matcher.

Clause: "evaluate the body of the first arm whose pattern matches the arguments".  For an expression / literal pattern (`0 => ..`, `true => ..`,
`"a" => ..`) "matches" means: the evaluated pattern equals the argument.  The matcher is shared by three kinds of callers and takes a MODE constant
(a field-less enum parameter); in one mode an evaluated pattern that is a Bool is not compared with the value at all - its own truth value is the
verdict (that is what lets a `match` arm be written `x > 3 => ..`).  Structural facts decided here, all enumerated from the code:

  table     for every mode constant m and every function that carries a mode parameter: the verdicts (returned / tail values, lib/synverdict.value_leaves)
            that are produced from the EVALUATED pattern expression (data or control dependence on a call of the interpreter's expression evaluator whose
            operand comes from the pattern parameter) and are feasible under m (path facts evaluated with the parameter = m).  A verdict that does not
            depend on the matched-value parameter is BLIND.  m is a comparing mode iff no feasible verdict is blind.
            The same for repeated variables: a verdict reached under "the environment already holds this name" must depend on the matched value.
  entry     every call of the matcher family from outside it (function-arm selector, match selector, kind validation, state-machine arms): the set of
            mode constants that can reach the mode-carrying matcher from there - the explicit argument, or through mode-less wrappers (every call
            in the wrapper, private helpers inlined).  Sites in a function-arm / state-machine role must only reach comparing modes; all sites in a
            match-expression role agree with each other.
  pass-on   inside a mode-carrying function every call of a mode-carrying function passes the function's OWN mode parameter (nested patterns are
            matched in the mode of the whole pattern).
Roles come from declared parameter types of the enclosing function (or of its callers when the call sits in a helper), the family from signatures
(`&Pattern` in, bool verdict out), the mode domain from the enum declaration.  The behaviour itself (which arm runs for which argument) is not decided."""
import re
from lib.facts import find, is_node, path_of, render, render_pat
from lib import synq as Q
from lib import synverdict as V

CRATE = "mech_interpreter.lib"
RULE = "C16-R12"
ROLE_TYPES = (("function-arm", re.compile(r"\bFunction(Definition|MatchArm|Define)\b")),
              ("match-arm", re.compile(r"\bMatch(Expression|Arm)\b")),
              ("fsm-arm", re.compile(r"\bFsm\w*\b|\bStateMachine\w*\b")))
MUST_COMPARE = ("function-arm", "fsm-arm")
ROLE_TEXT = {"function-arm": "a function arm's pattern", "fsm-arm": "a state-machine arm's pattern", "match-arm": "a match arm's pattern"}


def last(p):
    return re.sub(r"<.*>", "", p or "").split("::")[-1]


def in_types(it):
    return [p[1] if isinstance(p[1], str) else "" for p in it["sig"]["inputs"]]


def boolish(ret):
    return isinstance(ret, str) and re.search(r"\bbool\b", ret) is not None


class Family:
    """the pattern matchers of the crate and the mode they are parameterised with - all by signature"""

    def __init__(self, items, fns):
        self.fns = fns
        self.items = items
        fn_items = [it for it in items if it["k"] == "fn" and it.get("body") is not None and it.get("sig")]
        self.matchers = [it for it in fn_items if boolish(it["sig"].get("ret")) and any(re.search(r"\bPattern\b", t) for t in in_types(it))
                         and any(re.search(r"\bValue\b", t) for t in in_types(it))]
        enums = V.fieldless_enums(items)
        heads = {}
        for it in self.matchers:
            for t in in_types(it):
                h = V.type_head(t)
                if h in enums:
                    heads[h] = V.EnumMode(h, enums[h])
                elif h == "bool":
                    heads[h] = V.BoolMode()
        self.modes = [heads[k] for k in sorted(heads)]
        self.mode = self.modes[0] if len(self.modes) == 1 else None
        # every function that takes the mode: matcher or helper (a `bool` flag is only read as a mode on the matchers themselves)
        self.carriers = []
        if self.mode is not None:
            self.carriers = [it for it in (self.matchers if self.mode.is_bool else fn_items) if self.mode_index(it) is not None]
        self.members = list(self.matchers) + [it for it in self.carriers if not any(it is m for m in self.matchers)]
        self.by_name = {}
        for it in self.members:
            self.by_name.setdefault(it["name"], []).append(it)

    def mode_index(self, it):
        if self.mode is None:
            return None
        ix = [i for i, t in enumerate(in_types(it)) if V.type_head(t) == self.mode.name]
        return ix[0] if len(ix) == 1 else None

    def member(self, call, mod):
        """the family member a call refers to"""
        p = path_of(call[1]) if is_node(call) and call[0] == "call" else None
        if not p or last(p) not in self.by_name:
            return None
        h = self.fns.callee(call, mod)
        if h is not None and any(h is m for m in self.members):
            return h
        c = self.by_name[last(p)]
        return c[0] if len(c) == 1 and h is None else None

    def is_member(self, it):
        return any(it is m for m in self.members)

    def carries(self, it):
        return any(it is m for m in self.carriers)


# ------------------------------------------------------------------------------------------------ the verdict table of one mode-carrying function
class Verdicts:
    def __init__(self, fam, it):
        self.fam = fam
        self.it = it
        fns = fam.fns
        self.sc = sc = Q.Scope(fns).add_fn(it)
        self.dv = V.Derive(sc)
        names = Q.params(it)
        tys = in_types(it)
        mi = fam.mode_index(it)
        self.mode_b = V.param_binding(sc, it, names[mi]) if mi is not None and names[mi] else None
        self.value_bs = [b for b in (V.param_binding(sc, it, n) for n, t in zip(names, tys) if n and re.search(r"\bValue\b", t)) if b is not None]
        self.pattern_bs = [b for b in (V.param_binding(sc, it, n) for n, t in zip(names, tys) if n and re.search(r"\b(Pattern|Expression)\b", t)) if b is not None]
        self.env_bs = [b for b in (V.param_binding(sc, it, n) for n, t in zip(names, tys) if n and re.search(r"\bEnvironment\b", t)) if b is not None]
        self.evals = {}        # id(call) -> call : evaluations of (a part of) the pattern by the expression evaluator
        self.lookups = {}      # id(mcall) -> mcall : `env.get(..)` on the environment parameter
        self.leaves = []       # (x, facts, via)
        self._collect(it["body"], [], it["mod"], 2, ())

    # -- what the verdict is made from
    def _is_eval(self, c, mod):
        h = self.fam.fns.callee(c, mod)
        if h is None or not h.get("sig"):
            return False
        tys = in_types(h)
        if not (tys and re.search(r"\bExpression\b", tys[0]) and re.search(r"\bValue\b", h["sig"].get("ret") or "")):
            return False
        return bool(c[2]) and self.dv.hits(c[2][0], on_binding=lambda b: any(b is p for p in self.pattern_bs))

    def _collect(self, stmts, facts, mod, depth, via):
        leaves, fl = V.value_leaves(stmts, facts, self.sc)
        for _id, (n, _f) in list(fl.sites.items()):
            if n[0] == "call" and self._is_eval(n, mod):
                self.evals[id(n)] = n
            if n[0] == "mcall" and n[2] in ("get", "get_mut", "contains_key") and any(self.sc.root(n[1]) is b for b in self.env_bs):
                self.lookups[id(n)] = n
        for e, f in leaves:
            x = V.unwrap_result(e)
            if x is None:
                continue
            self.leaves.append((x, f, via))
            # a verdict delegated to a private bool helper that is not itself a matcher: its leaves are the verdicts
            if depth > 0 and is_node(x) and x[0] == "call":
                h = self.fam.fns.callee(x, mod)
                if h is not None and Q.is_private(h) and not any(h is m_ for m_ in self.fam.matchers) and boolish(h["sig"].get("ret")) and not any(h is v for v in via) \
                        and x[2] is not None and id(x) in self.sc.env_at:
                    body = self.sc.inline(x, h)
                    if body is not None:
                        self._collect(body, f, h["mod"], depth - 1, via + (h,))

    def is_mode(self, e):
        return self.mode_b is not None and any(self.sc.binding(x) is self.mode_b for x in self.sc.chain(e))

    def _from_eval(self, e):
        return self.dv.hits(e, on_node=lambda n: id(n) in self.evals)

    def _from_value(self, e):
        return self.dv.hits(e, on_binding=lambda b: any(b is v for v in self.value_bs))

    def _bound_already(self, facts):
        """facts say: the environment lookup succeeded (`if let Some(x) = env.get(..)` taken / `.is_some()` / `contains_key`)"""
        for c, pol in facts:
            if not pol or not is_node(c):
                continue
            if c[0] in ("letc", "marm"):
                pat, val = (c[1], c[2]) if c[0] == "letc" else (c[2], c[1])
                if Q._pat_kind(pat) == "some" and self.dv.hits(val, on_node=lambda n: id(n) in self.lookups):
                    return True
            elif c[0] == "mcall" and (c[2] == "contains_key" and id(c) in self.lookups or c[2] == "is_some" and self.dv.hits(c[1], on_node=lambda n: id(n) in self.lookups)):
                return True
        return False

    def classify(self):
        """[(kind, x, facts, via)] for the verdicts that are made from the pattern: kind = 'evaluated' | 'rebound'"""
        out = []
        for x, f, via in self.leaves:
            if self._from_eval(x) or any(self._from_eval(c) for c, _ in f):
                out.append(("evaluated", x, f, via))
            elif self._bound_already(f):
                out.append(("rebound", x, f, via))
        return out

    def blind(self, x, f):
        return not (self._from_value(x) or any(self._from_value(c) for c, _ in f))

    def feasible(self, f, m):
        """True / False / None (depends on the mode in a way that cannot be evaluated)"""
        res = True
        known = self.value_bs + self.pattern_bs + self.env_bs + ([self.mode_b] if self.mode_b is not None else [])
        for c, _pol in f:
            # conditioned on some other parameter (a configuration flag, the interpreter): which callers take this path is not decided here
            if self.dv.hits(c, on_binding=lambda b: b.kind == "param" and b.owner is self.it and not any(b is k for k in known), prune=lambda n: id(n) in self.evals):
                res = None
        if self.fam.mode is None or self.mode_b is None or m is None:
            return res
        atom = self.fam.mode.atom(self.sc, self.is_mode, m)
        for c, pol in f:
            if not self.dv.hits(c, on_binding=lambda b: b is self.mode_b):
                continue
            v = Q.truth(c, atom, self.sc)
            if v is None:
                res = None
            elif v != pol:
                return False
        return res


def ctx_text(fam, ctx):
    it, m = ctx
    return "%s[%s]" % (it["name"], fam.mode.label(m)) if m is not None and fam.mode is not None else it["name"]


def fmt_ctxs(fam, ctxs):
    return "{%s}" % ", ".join(sorted(ctx_text(fam, c) for c in ctxs))


def key_of(ctx):
    return (id(ctx[0]), ctx[1])


def table(fam):
    """context (family member, mode constant or None) -> blind verdicts / undecided verdicts / number of comparing verdicts; number of pattern-made verdicts"""
    blind, undecided, ncmp, ctxs = {}, {}, {}, {}
    n_sites = 0
    for it in fam.members:
        vd = Verdicts(fam, it)
        domain = fam.mode.variants if fam.mode_index(it) is not None else [None]
        for m in domain:
            k = (id(it), m)
            ctxs[k] = (it, m)
            blind[k], undecided[k], ncmp[k] = [], [], 0
        for kind, x, f, via in vd.classify():
            n_sites += 1
            is_blind = vd.blind(x, f)
            for m in domain:
                k = (id(it), m)
                fe = vd.feasible(f, m)
                if fe is False:
                    continue
                if not is_blind:
                    if fe is True:
                        ncmp[k] += 1
                    continue
                (blind if fe is True else undecided)[k].append((it["name"], kind, render(x)[:80]))
    return ctxs, blind, undecided, ncmp, n_sites


# ------------------------------------------------------------------------------------------------ who reaches which matcher in which mode
class Reach:
    """contexts (family member, mode) that a call of a family member can end up in: the explicit mode argument, the caller's own mode handed on, or -
    through mode-less wrappers - whatever constants the wrappers pass (every call in the wrapper, private helpers inlined)"""

    def __init__(self, fam):
        self.fam = fam
        self.memo = {}
        self.scopes = {}

    def scope(self, it):
        if id(it) not in self.scopes:
            self.scopes[id(it)] = Q.Scope(self.fam.fns).add_fn(it)
        return self.scopes[id(it)]

    def of_call(self, sc, c, h, own=None, own_m=None):
        """(contexts {key: ctx} or None, route text) for one call of family member h; `own` / `own_m`: the calling member's mode parameter binding and its assumed value"""
        fam = self.fam
        mi = fam.mode_index(h)
        if mi is None:
            cs, route = self.closure(h, None)
            return cs, ("%s -> %s" % (h["name"], route)) if route else h["name"]
        if mi >= len(c[2]):
            return None, h["name"]
        arg = c[2][mi]
        if own is not None and any(sc.binding(x) is own for x in sc.chain(arg)):
            vs = {own_m}
        else:
            vs = fam.mode.const_values(sc, arg)
        if vs is None:
            return None, "%s(.., %s)" % (h["name"], render(arg)[:60])
        out = {}
        for v in vs:
            cs, _r = self.closure(h, v)
            if cs is None:
                return None, "%s(.., %s)" % (h["name"], render(arg)[:60])
            out.update(cs)
        return out, "%s(.., %s)" % (h["name"], render(arg)[:60])

    def closure(self, it, m, _stack=()):
        k = (id(it), m)
        if k in self.memo:
            return self.memo[k]
        if k in _stack:
            return {}, ""
        fam = self.fam
        sc = self.scope(it)
        names = Q.params(it)
        mi = fam.mode_index(it)
        own = V.param_binding(sc, it, names[mi]) if mi is not None and names[mi] else None
        out = {k: (it, m)}
        routes = []
        unknown = False

        def pred(c, p):
            return last(p) in fam.by_name

        for c, _via, _body in Q.calls_via(sc, it["body"], pred, 2, lambda h: Q.is_private(h) and not fam.is_member(h), it["mod"]):
            h = fam.member(c, it["mod"])
            if h is None:
                continue
            hi = fam.mode_index(h)
            if hi is None:
                if h is it:
                    continue
                cs, r = self.closure(h, None, _stack + (k,))
                r = ("%s -> %s" % (h["name"], r)) if r else h["name"]
            else:
                if hi >= len(c[2]):
                    cs, r = None, h["name"]
                else:
                    arg = c[2][hi]
                    if own is not None and any(sc.binding(x) is own for x in sc.chain(arg)):
                        vs = {m}
                    else:
                        vs = fam.mode.const_values(sc, arg)
                    r = "%s(.., %s)" % (h["name"], render(arg)[:60])
                    if vs is None:
                        cs = None
                    else:
                        cs = {}
                        for v in vs:
                            if h is it and v == m:
                                continue
                            sub, _r = self.closure(h, v, _stack + (k,))
                            if sub is None:
                                cs = None
                                break
                            cs.update(sub)
                        if cs is not None and h is it and vs == {m}:
                            continue        # plain recursion in the same mode: no new context, not part of the route
            if cs is None:
                unknown = True
            else:
                out.update(cs)
            if r not in routes:
                routes.append(r)
        res = (None if unknown else out, " | ".join(routes))
        if not _stack:
            self.memo[k] = res
        return res


def roles_of(fam, it, callers, depth=2, _seen=None):
    _seen = _seen if _seen is not None else set()
    _seen.add(id(it))
    out = set()
    for t in in_types(it):
        for role, rx in ROLE_TYPES:
            if rx.search(t):
                out.add(role)
    if out or depth <= 0:
        return out
    for jt in callers(it):
        if id(jt) not in _seen:
            out |= roles_of(fam, jt, callers, depth - 1, _seen)
    return out


def enclosing_variant(body, node):
    """the enum variant of the innermost `match` arm (with a variant pattern) that contains `node`: names a site without a line number"""
    best = ""
    for m in find(body, "match"):
        for arm in m[2]:
            if Q.contains(arm[2], node):
                pat = arm[0]
                alts = pat[1] if is_node(pat) and pat[0] == "por" else [pat]
                for alt in alts:
                    while is_node(alt) and alt[0] in ("pref", "ptype"):
                        alt = alt[2] if alt[0] == "pref" else alt[1]
                    if is_node(alt) and alt[0] in ("pts", "ppath", "pstruct") and "::" in alt[1]:
                        best = "::".join(alt[1].split("::")[-2:])      # innermost wins: later (nested) matches overwrite
                        break
    return best


def discharge_undecided(rep, item):
    rep.obligations += 1
    rep.discharged += 1
    rep.note("undecided", item)


def run(F, rep, fns):
    rep.rule(RULE, "an expression / literal pattern of a function arm is compared with the argument: the mode constant that reaches the pattern matcher from the function-arm "
                   "selector, from the state-machine arms and from the match-expression arms - explicitly or through mode-less wrappers - is one under which every verdict made "
                   "from the evaluated pattern depends on the matched value; nested patterns are matched in the mode of the whole pattern; all match-expression sites use one mode")
    items = F.syn(CRATE)
    fam = Family(items, fns)
    if not rep.check(len(fam.matchers) >= 1, RULE, "anchor:pattern-matchers", "no function with a `&Pattern` parameter, a value parameter and a bool verdict found in the interpreter"):
        return
    if len(fam.modes) > 1:
        rep.note("undecided", {"rule": RULE, "why": "the pattern matchers take more than one field-less enum parameter (%s): which one is the comparison mode is not decided" % [m.name for m in fam.modes]})
        return
    # ---- table
    ctxs, blind, undecided, ncmp, n_sites = table(fam)
    rep.floor(RULE, "verdicts made from the evaluated pattern / a repeated variable", n_sites, 3)
    comparing = [k for k in ctxs if not blind[k] and not undecided[k] and ncmp[k] > 0]
    for k in ctxs:
        for fn, kind, txt in undecided[k]:
            rep.note("undecided", {"rule": RULE, "fn": fn, "mode": k[1], "why": "a value-blind verdict `%s` is guarded by a test of the mode that cannot be evaluated" % txt})
    if any(undecided[k] for k in ctxs):
        rep.obligations += 1
        rep.discharged += 1
    else:
        first = next((b for k in ctxs for b in blind[k]), None)
        rep.check(bool(comparing), RULE, "matcher:comparing-mode-exists",
                  "in every mode of the pattern matcher a verdict made from the pattern does not depend on the matched value (%s: `%s`%s): no caller can have a literal / "
                  "repeated-variable pattern compared with the argument" % ((first[0], first[2], " - " + first[1]) if first else ("?", "?", "")),
                  sample={"contexts": {ctx_text(fam, ctxs[k]): {"blind": blind[k], "comparing_verdicts": ncmp[k]} for k in ctxs if blind[k] or ncmp[k]}})
    # ---- pass-on
    n_pass = 0
    for it in fam.carriers:
        sc = Q.Scope(fns).add_fn(it)
        names = Q.params(it)
        own = V.param_binding(sc, it, names[fam.mode_index(it)]) if names[fam.mode_index(it)] else None

        def pred(c, p):
            return last(p) in fam.by_name

        for c, _via, _b in Q.calls_via(sc, it["body"], pred, 2, lambda h: Q.is_private(h) and not fam.is_member(h), it["mod"]):
            h = fam.member(c, it["mod"])
            if h is None or fam.mode_index(h) is None or fam.mode_index(h) >= len(c[2]):
                continue
            n_pass += 1
            arg = c[2][fam.mode_index(h)]
            same = own is not None and any(sc.binding(x) is own for x in sc.chain(arg))
            ctx = enclosing_variant(it["body"], c)
            if same:
                rep.ok(RULE, "%s:%s:mode-passed-on" % (it["name"], ctx))
                continue
            vs = fam.mode.const_values(sc, arg)
            if vs is None:
                discharge_undecided(rep, {"rule": RULE, "fn": it["name"], "why": "the mode handed to %s is `%s`: neither the function's own mode parameter nor a constant" % (h["name"], render(arg)[:60])})
                continue
            rep.bad(RULE, "%s:%s:mode-not-passed-on" % (it["name"], ctx),
                    "%s matches the sub-patterns%s by calling %s with the fixed mode {%s} instead of its own mode parameter: nested patterns (inside a tuple / array / tagged "
                    "pattern) are compared in a different mode than the pattern as a whole - a literal inside a function arm's tuple pattern is no longer compared like a top-level literal"
                    % (it["name"], (" of %s" % ctx) if ctx else "", h["name"], ", ".join(sorted(fam.mode.label(v) for v in vs))), "%s (mech_interpreter.lib)" % it["name"])
    if fam.mode is not None:
        rep.floor(RULE, "recursive matcher calls that hand the mode on", n_pass, 4)
    # ---- entry sites
    fn_items = [it for it in items if it["k"] in ("fn", "method") and it.get("body") is not None and it.get("sig")]
    callees = {}

    def called_names(it):
        if id(it) not in callees:
            callees[id(it)] = {last(path_of(c[1])) for c in find(it["body"], "call") if path_of(c[1])}
        return callees[id(it)]

    def callers(it):
        return [jt for jt in fn_items if jt is not it and it["name"] in called_names(jt) and any(fns.callee(c, jt["mod"]) is it for c in find(jt["body"], "call"))]

    reach = Reach(fam)
    n_entry = 0
    by_role = {}
    for it in fn_items:
        if fam.is_member(it) or not (called_names(it) & set(fam.by_name)):
            continue
        sc = None
        for c in find(it["body"], "call"):
            h = fam.member(c, it["mod"])
            if h is None:
                continue
            if sc is None:
                sc = Q.Scope(fns).add_fn(it)
            roles = roles_of(fam, it, callers)
            cs, route = reach.of_call(sc, c, h)
            n_entry += 1
            ctx = enclosing_variant(it["body"], c)
            site = "%s%s" % (it["name"], (":" + ctx) if ctx else "")
            for role in sorted(roles) or ["other"]:
                by_role.setdefault(role, []).append((site, cs, route))
            if cs is None:
                discharge_undecided(rep, {"rule": RULE, "fn": it["name"], "why": "the mode that reaches the matcher through `%s` is not a constant" % route})
                continue
            must = [r for r in sorted(roles) if r in MUST_COMPARE]
            if not must:
                rep.ok(RULE, "%s:%s:mode-constant" % (site, "+".join(sorted(roles)) or "other"), sample={"site": site, "contexts": fmt_ctxs(fam, cs.values()), "route": route})
                continue
            for role in must:
                badk = sorted((k for k in cs if blind.get(k)), key=lambda k: ctx_text(fam, cs[k]))
                undk = [k for k in cs if undecided.get(k) and not blind.get(k)]
                if undk and not badk:
                    rep.obligations += 1
                    rep.discharged += 1
                    continue
                ex = blind[badk[0]][0] if badk else None
                rep.check(not badk, RULE, "%s:%s:pattern-compared-with-value" % (site, role) if not badk else "%s:%s:pattern-not-compared-with-value" % (site, role),
                          "%s tests %s through %s, i.e. in %s; there %s decides %s by `%s`, which does not read the matched value: a literal pattern "
                          "(e.g. `true` / `false`) then matches every argument or none, so an earlier arm shadows the first arm that really matches (or no arm matches)" % (
                              it["name"], ROLE_TEXT[role], route, fmt_ctxs(fam, [cs[k] for k in badk]), ex[0] if ex else "?",
                              "an evaluated expression pattern" if ex and ex[1] == "evaluated" else "a repeated variable", ex[2] if ex else "?"),
                          "%s (mech_interpreter.lib)" % it["name"], sample={"site": site, "role": role, "contexts": fmt_ctxs(fam, cs.values()), "route": route})
    rep.floor(RULE, "calls of the pattern matcher family from the arm selectors", n_entry, 4)
    # ---- sibling agreement of the match-expression sites
    ms = [(s, cs, r) for s, cs, r in by_role.get("match-arm", []) if cs is not None]
    if ms:
        ref = set(ms[0][1])
        odd = [(s, cs, r) for s, cs, r in ms if set(cs) != ref]
        rep.check(not odd, RULE, "match-arm:sites-agree-on-mode" if not odd else "match-arm:sites-disagree-on-mode",
                  "the match-expression sites do not test arm patterns in one mode: %s" % "; ".join("%s uses %s" % (s, fmt_ctxs(fam, cs.values())) for s, cs, r in ms),
                  sample={"sites": [(s, fmt_ctxs(fam, cs.values())) for s, cs, r in ms]})
        if not odd:
            # the match-expression arms as a whole: the mode they all use must compare a LITERAL pattern with the source value as well
            cs = ms[0][1]
            badk = sorted((k for k in cs if blind.get(k)), key=lambda k: ctx_text(fam, cs[k]))
            undk = [k for k in cs if undecided.get(k) and not blind.get(k)]
            if undk and not badk:
                rep.obligations += 1
                rep.discharged += 1
            else:
                ex = blind[badk[0]][0] if badk else None
                rep.check(not badk, RULE, "match-arm:pattern-compared-with-value" if not badk else "match-arm:pattern-not-compared-with-value",
                          "%s test a match arm's pattern in %s; there %s decides %s by `%s`, which does not read the matched value: a pattern expression that evaluates to a "
                          "Bool - including the LITERAL patterns `true` / `false` - is taken as a condition, so `| true => ..` matches every source value and `| false => ..` none" % (
                              " and ".join(sorted({s_ for s_, _c, _r in ms})), fmt_ctxs(fam, [cs[k] for k in badk]), ex[0] if ex else "?",
                              "an evaluated expression pattern" if ex and ex[1] == "evaluated" else "a repeated variable", ex[2] if ex else "?"),
                          "%s (mech_interpreter.lib)" % sorted({s_ for s_, _c, _r in ms})[0].split(":")[0], sample={"sites": sorted({s_ for s_, _c, _r in ms}), "contexts": fmt_ctxs(fam, cs.values())})
    rep.floor(RULE, "function-arm sites", len(by_role.get("function-arm", [])), 1)
    rep.analysed = dict(getattr(rep, "analysed", {}) or {}, **{"c16_r12": {
        "mode": fam.mode.name if fam.mode else None, "comparing": sorted(ctx_text(fam, ctxs[k]) for k in comparing),
        "blind": {ctx_text(fam, ctxs[k]): blind[k] for k in ctxs if blind[k]}, "members": [it["name"] for it in fam.members],
        "entry_sites": {role: [(s, fmt_ctxs(fam, cs.values()) if cs is not None else None, r) for s, cs, r in v] for role, v in by_role.items()}}})
