"""C06-R18 — a codec writer emits every value once.

The byte layout of a constant / instruction / header record is a sequence of fixed-width writes, one per field.  Writing the SAME non-constant value twice in
one straight-line region of a writer (the function's own statements, one match arm, one loop body, one if-branch) means a field of the record was never
written: the length, alignment, cursor advance and checksum all stay consistent, the reader rebuilds a well-formed value - with one field replaced by a copy
of another (`C64::write_le` writing `re` twice: a complex element of a set or table comes back from bytecode as 1+1i instead of 1+2i).  C06-R17 / C07-R7
compare writer and reader field by field where both sides NAME their fields; this rule needs no names and covers positional constructors (`C64::new(re, im)`).
On the pinned tree no writer region repeats a value (counted on every run)."""
import re
from collections import Counter
from lib.facts import is_node, render

W = re.compile(r"^write_(u8|u16|u32|u64|u128|i8|i16|i32|i64|i128|f32|f64)$")
CRATES = ("mech_core.lib", "mech_interpreter.lib")


def _regions(e, cur, allr):
    if not isinstance(e, list):
        return
    if is_node(e):
        t = e[0]
        if t == "match":
            _regions(e[1], cur, allr)
            for a in e[2]:
                r = list(cur)
                allr.append(r)
                _regions(a[2], r, allr)
            return
        if t in ("for", "while", "loop", "closure"):
            r = []
            allr.append(r)
            for x in e[1:]:
                _regions(x, r, allr)
            return
        if t == "if":
            _regions(e[1], cur, allr)
            r = list(cur)
            allr.append(r)
            _regions(e[2], r, allr)
            if e[3] is not None:
                r2 = list(cur)
                allr.append(r2)
                _regions(e[3], r2, allr)
            return
        if t == "mcall" and W.match(e[2]) and e[4]:
            cur.append(render(e[4][0]))
    for x in e:
        _regions(x, cur, allr)


def run_r18(F, rep):
    rep.rule("C06-R18", "a codec writer emits every value once: no straight-line region of a byte-layout writer (function body, match arm, loop body, branch) writes the same "
                        "non-constant value twice - a repeated value means another field of the record was never written, and the reader rebuilds a well-formed but different value")
    n = 0
    for crate in CRATES:
        for it in F.syn(crate):
            if it["k"] not in ("method", "fn") or not it.get("body"):
                continue
            top = []
            allr = [top]
            _regions(it["body"], top, allr)
            if not any(len(r) >= 2 for r in allr):
                continue
            n += 1
            name = it["name"] if it["k"] == "fn" else "%s::%s" % (re.sub(r"\s", "", it["self"]), it["name"])
            dups = {}
            for r in allr:
                for a, k in Counter(r).items():
                    if k > 1 and not re.fullmatch(r"[\d_]+\w*", a):
                        dups[a] = max(dups.get(a, 0), k)
            if not dups:
                rep.ok("C06-R18", "%s:each-value-once" % name, sample={"writer": name, "crate": crate})
            for a, k in sorted(dups.items()):
                rep.bad("C06-R18", "%s:writes-twice:%s" % (name, re.sub(r"\s+", "", a)[:40]),
                        "%s writes `%s` %d times in one straight-line region of its byte layout: a field of the record is never written and the decoder rebuilds the value with "
                        "that field replaced by a copy of another" % (name, a, k), "%s (%s, expanded line %d)" % (name, crate, it["line"]))
    rep.floor("C06-R18", "codec writers with at least two fixed-width writes in one region", n, 20)
