#!/usr/bin/env python3
"""Entry point: python3 verif.py <Cxx> [--tier quick|thorough]"""
import importlib
import os
import sys

sys.path.insert(0, os.path.dirname(os.path.abspath(__file__)))
import pipeline
from lib.facts import Facts
from lib.report import Report


def main():
    if len(sys.argv) < 2:
        print("usage: verif.py <Cxx> [--tier quick|thorough]")
        sys.exit(2)
    prop = sys.argv[1]
    tier = os.environ.get("VERIF_TIER", "quick")
    if "--tier" in sys.argv:
        tier = sys.argv[sys.argv.index("--tier") + 1]
    seed = int(os.environ.get("VERIF_SEED", "0") or 0)
    try:
        # thorough: the facts must come from a from-scratch run of the pipeline for this tree state (no incremental reuse)
        d = pipeline.ensure_facts(clean=(tier == "thorough"))
    except pipeline.InfraError as e:
        sys.stderr.write("INFRA-ERROR (no verdict): %s\n" % e)
        sys.exit(2)
    F = Facts(d)
    rep = Report(prop, tier, seed)
    mod = importlib.import_module("rules.%s" % prop.lower())
    mod.run(F, rep, tier)
    sys.exit(rep.finish(level="other", explanation=mod.EXPLANATION, technique=mod.TECHNIQUE))


if __name__ == "__main__":
    main()
